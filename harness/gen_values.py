"""Generator of value specs (JSON-able) and builder spec -> real pyanalyze Value.

A spec is a nested list, so every case is replayable from its JSON form.  Mutable /
unhashable literal objects carry a label; equal labels inside one case denote the
*same* Python object (KnownValue hashes unhashable literals by identity).
"""
from __future__ import annotations

import collections.abc

import universe as U

CLASSES = {c.__name__: c for c in U.CLASS_CODES if isinstance(c, type)}
CLASSES["NoneType"] = type(None)
CLASSES["AbstractSet"] = collections.abc.Set
CLASSES["Set"] = collections.abc.Set


# ---------------------------------------------------------------------------
# objects


def build_obj(s, cache):
    k = s[0]
    if k == "none":
        return None
    if k in ("bool", "int", "float", "str"):
        return {"bool": bool, "int": int, "float": float, "str": str}[k](s[1])
    if k == "complex":
        return complex(s[1], s[2])
    if k == "bytes":
        return s[1].encode("latin1")
    if k == "ie":
        return U.IE[s[1]]
    if k == "isub":
        return U.ISub(s[1])
    if k == "fsub":
        return U.FSub(s[1])
    if k == "fe":
        return U.FE[s[1]]
    if k == "e":
        return U.E[s[1]]
    if k == "inst":
        return U.INSTANCES[CLASSES[s[1]]][s[2]]
    if k == "class":
        return CLASSES[s[1]]
    if k == "frozenset":
        return frozenset(build_obj(x, cache) for x in s[1])
    if k in ("tuple", "list", "set", "dict"):
        key = (k, s[1])
        if key in cache:
            return cache[key]
        if k == "dict":
            o = {build_obj(a, cache): build_obj(b, cache) for a, b in s[2]}
        else:
            o = {"tuple": tuple, "list": list, "set": set}[k](build_obj(x, cache) for x in s[2])
        cache[key] = o
        return o
    raise ValueError(s)


def gen_scalar(rng):
    return rng.choice(
        [["none"], ["bool", True], ["bool", False], ["int", 0], ["int", 1], ["int", -1], ["int", 2], ["int", 300],
         ["float", 0.0], ["float", 1.0], ["float", 1.5], ["complex", 0.0, 1.0], ["complex", 1.0, 0.0], ["str", ""],
         ["str", "a"], ["str", "ab"], ["bytes", ""], ["bytes", "a"], ["ie", "x"], ["ie", "y"], ["e", "a"], ["e", "b"], ["isub", 3], ["fsub", 0.5], ["fsub", 1.0], ["fe", "half"], ["fe", "one"],
         ["inst", "A", 0], ["inst", "A", 1], ["inst", "B", 0], ["inst", "C", 0], ["class", "int"], ["class", "A"],
         ["class", "B"], ["class", "str"]]
    )


def gen_hashable_obj(rng, depth):
    if depth <= 0 or rng.random() < 0.6:
        return gen_scalar(rng)
    if rng.random() < 0.7:
        return ["tuple", rng.randrange(1000), [gen_hashable_obj(rng, depth - 1) for _ in range(rng.randrange(3))]]
    return ["frozenset", _distinct([gen_scalar(rng) for _ in range(rng.randrange(3))])]


def _distinct(specs):
    out, seen = [], []
    for s in specs:
        o = build_obj(s, {})
        if any(o == p for p in seen):
            continue
        seen.append(o)
        out.append(s)
    return out


def gen_obj(rng, depth):
    r = rng.random()
    if depth <= 0 or r < 0.45:
        return gen_scalar(rng)
    lab = rng.randrange(4)  # few labels: identity sharing is frequent
    n = rng.randrange(3)
    if r < 0.6:
        return ["tuple", 100 + rng.randrange(1000), [gen_obj(rng, depth - 1) for _ in range(n)]]
    if r < 0.8:
        return ["list", lab, [gen_obj(rng, depth - 1) for _ in range(n)]]
    if r < 0.88:
        return ["set", lab, _distinct([gen_hashable_obj(rng, depth - 1) for _ in range(n)])]
    if r < 0.93:
        return ["frozenset", _distinct([gen_hashable_obj(rng, depth - 1) for _ in range(n)])]
    keys = _distinct([gen_hashable_obj(rng, 0) for _ in range(n)])
    return ["dict", lab, [[k, gen_obj(rng, depth - 1)] for k in keys]]


def fix_labels(s, content=None):
    """a label must denote one content: re-label by content so that equal
    labels with different contents cannot occur"""
    if content is None:
        content = {}
    if not isinstance(s, list):
        return s
    s = [fix_labels(x, content) for x in s]
    if s and s[0] in ("tuple", "list", "set", "dict") and len(s) == 3 and isinstance(s[1], int):
        key = (s[0], s[1])
        body = repr(s[2])
        if key in content and content[key] != body:
            s[1] = s[1] * 7919 + (hash(body) % 7919) + 10000
        else:
            content[key] = body
    return s


# ---------------------------------------------------------------------------
# values


def build(s, cache):
    from pyanalyze import value as V
    from pyanalyze.signature import ParameterKind, Signature, SigParameter

    k = s[0]
    if k == "any":
        return V.AnyValue(V.AnySource(s[1]))
    if k == "known":
        return V.KnownValue(build_obj(s[1], cache))
    if k == "typed":
        return V.TypedValue(CLASSES[s[1]])
    if k == "literalstring":
        return V.TypedValue(str, literal_only=True)
    if k == "newtype":
        return V.NewTypeValue([U.NT, U.NT2][s[1]])
    if k == "uninit":
        return V.UNINITIALIZED_VALUE
    if k == "generic":
        return V.GenericValue(CLASSES[s[1]], [build(x, cache) for x in s[2]])
    if k == "seq":
        return V.SequenceValue(CLASSES[s[1]], [(bool(f), build(x, cache)) for f, x in s[2]])
    if k == "dictinc":
        return V.DictIncompleteValue(dict, [V.KVPair(build(a, cache), build(b, cache), bool(m), bool(r)) for a, b, m, r in s[1]])
    if k == "td":
        items = {name: V.TypedDictEntry(build(x, cache), required=bool(req), readonly=bool(ro)) for name, x, req, ro in s[1]}
        return V.TypedDictValue(items, extra_keys=None if s[2] is None else build(s[2], cache), extra_keys_readonly=bool(s[3]))
    if k == "subclass":
        return V.SubclassValue(build(s[1], cache), exactly=bool(s[2]))
    if k == "annot":
        inner = build(s[1], cache)
        if inner is V.NO_RETURN_VALUE or isinstance(inner, V.AnnotatedValue):
            return inner  # Annotated[Never] / Annotated[Annotated[..]] are not built (see gen_val)
        return V.AnnotatedValue(inner, [V.KnownValue(i) for i in s[2]])
    if k == "tv":
        return V.TypeVarValue(U.TYPEVARS[s[1]], bound=None if s[2] is None else build(s[2], cache),
                              constraints=tuple(build(x, cache) for x in s[3]))
    if k == "callable":
        params = [SigParameter(f"@{i}", ParameterKind.POSITIONAL_ONLY, annotation=build(x, cache)) for i, x in enumerate(s[1])]
        for name, x in (s[3] if len(s) > 3 else []):  # keyword-only parameters, in declaration order
            params.append(SigParameter(name, ParameterKind.KEYWORD_ONLY, annotation=build(x, cache)))
        return V.CallableValue(Signature.make(params, build(s[2], cache)))
    if k == "alias":
        # ["alias", ident, [argument specs]]; the alias table of the case is cache["__aliases__"]:
        # {ident: [name, aliased value spec, [type parameter indices]]}.  One TypeAlias object per ident
        # (pyanalyze identifies aliases by that object); different idents may share a name.
        name, inner, params = cache["__aliases__"][str(s[1])]
        key = ("alias", s[1])
        if key not in cache:
            cache[key] = V.TypeAlias(lambda inner=inner: build(inner, cache), lambda params=params: [U.TYPEVARS[i] for i in params])
        return V.TypeAliasValue(name, "aliasmod", cache[key], tuple(build(x, cache) for x in s[2]))
    if k == "union":
        u = V.MultiValuedValue([build(x, cache) for x in s[1]])
        # Never is always the singleton (see the note in gen_val)
        return u if u.vals else V.NO_RETURN_VALUE
    if k == "unite":
        return V.unite_values(*[build(x, cache) for x in s[1]])
    raise ValueError(s)


TYPED = ["int", "str", "float", "bool", "object", "A", "B", "C", "list", "tuple", "NoneType", "E", "IE", "bytes"]


def gen_simple(rng):
    r = rng.random()
    if r < 0.35:
        return ["typed", rng.choice(TYPED)]
    if r < 0.7:
        return ["known", gen_obj(rng, 2)]
    if r < 0.76:
        return ["any", rng.choice([1, 2, 3, 4, 4, 5, 9])]
    if r < 0.80:
        return ["newtype", rng.randrange(2)]
    if r < 0.82:
        return ["uninit"]
    if r < 0.85:
        return ["literalstring"]
    if r < 0.95:
        return ["tv", rng.randrange(3), None, []]
    return ["tv", rng.randrange(3), ["typed", rng.choice(TYPED)], []] if rng.random() < 0.5 else \
        ["tv", rng.randrange(3), None, [["typed", "int"], ["typed", "str"]]]


def gen_val(rng, depth, allow_union=True):
    r = rng.random()
    if depth <= 0 or r < 0.30:
        return gen_simple(rng)
    d = depth - 1
    if r < 0.40:
        c = rng.choice(["list", "set", "frozenset", "Sequence", "Iterable", "tuple"])
        return ["generic", c, [gen_val(rng, d)]]
    if r < 0.45:
        return ["generic", rng.choice(["dict", "Mapping"]), [gen_val(rng, d), gen_val(rng, d)]]
    if r < 0.58:
        return ["seq", rng.choice(["tuple", "tuple", "list", "set"]),
                [[rng.random() < 0.2, gen_val(rng, d)] for _ in range(rng.randrange(4))]]
    if r < 0.64:
        return ["dictinc", [[gen_val(rng, d), gen_val(rng, d), rng.random() < 0.2, rng.random() < 0.8] for _ in range(rng.randrange(3))]]
    if r < 0.71:
        names = rng.sample(["a", "b", "c"], rng.randrange(1, 4))  # declaration order is random
        extra = gen_val(rng, d) if rng.random() < 0.25 else None
        return ["td", [[n, gen_val(rng, d), rng.random() < 0.7, rng.random() < 0.2] for n in names], extra, rng.random() < 0.3]
    if r < 0.76:
        inner = rng.choice([["typed", rng.choice(TYPED)], ["tv", rng.randrange(3), None, []], ["generic", "list", [gen_val(rng, 0)]]])
        return ["subclass", inner, rng.random() < 0.2]
    if r < 0.82:
        inner = gen_val(rng, d)
        # Annotated[Never] is not accepted by unions, and an AnnotatedValue directly around an
        # AnnotatedValue hides a union from is_union (both recorded under C04); annotate_value never builds the latter
        if inner == ["unite", []] or inner[0] == "annot":
            inner = gen_simple(rng)
        return ["annot", inner, sorted(set(rng.randrange(4) for _ in range(rng.randrange(1, 3))))]
    if r < 0.86:
        kw = [[n, gen_val(rng, d)] for n in rng.sample(["k", "l", "m"], rng.choice([0, 0, 1, 2, 3]))]
        return ["callable", [gen_val(rng, d) for _ in range(rng.randrange(3))], gen_val(rng, d), kw]
    if not allow_union:
        return gen_simple(rng)
    members = [gen_val(rng, d) for _ in range(rng.randrange(0, 4))]
    # Never is always the NO_RETURN_VALUE singleton (an empty MultiValuedValue that is a
    # different object is not recognised as Never by can_assign: see C04)
    return [rng.choice(["union", "unite", "unite"]) if members else "unite", members]


def variant(s, rng, fresh, force=False):
    """a value built differently from s that is meant to compare equal to it (or, where
    equality is positional, to differ from it only by construction order).  Every
    constructor whose construction order is not part of equality is permuted:
      union members, TypedDict keys (dict), keyword-only parameters (Signature.parameters is a dict);
    unhashable literal objects are re-created; equal numbers of another type are swapped in;
    and, as near misses whose equality IS positional, dict-incomplete entries and Annotated
    metadata are permuted too.  With force=True every applicable permutation is applied."""
    p = (lambda q: True) if force else (lambda q: rng.random() < q)
    if not isinstance(s, list):
        return s
    if s in (["int", 1], ["bool", True], ["float", 1.0]) and rng.random() < 0.2:
        return rng.choice([["int", 1], ["bool", True], ["float", 1.0], ["ie", "x"], ["complex", 1.0, 0.0]])
    if s in (["int", 0], ["bool", False], ["float", 0.0]) and rng.random() < 0.2:
        return rng.choice([["int", 0], ["bool", False], ["float", 0.0]])
    rec = lambda x: variant(x, rng, fresh, force)

    def perm(l):
        l = list(l)
        if len(l) > 1:
            if force:
                l = l[1:] + l[:1]  # a definite change of order
            else:
                rng.shuffle(l)
        return l

    k = s[0] if s else None
    if k in ("union", "unite"):
        ms = [rec(x) for x in s[1]]
        ms = perm(ms) if p(0.6) else ms
        # a union built directly may repeat a member (MultiValuedValue does not de-duplicate); == ignores
        # the multiplicity (set comparison), so the variant with a repeated member must stay equal
        if ms and rng.random() < (0.5 if force else 0.2):
            ms = ms + [ms[rng.randrange(len(ms))]]
            k = "union"
        return [k, ms]
    if k == "td" and len(s) == 4:
        entries = [[n, rec(x), req, ro] for n, x, req, ro in s[1]]
        return ["td", perm(entries) if p(0.7) else entries, None if s[2] is None else rec(s[2]), s[3]]
    if k == "callable" and isinstance(s[1], list) and len(s) >= 3:
        kw = [[n, rec(x)] for n, x in (s[3] if len(s) > 3 else [])]
        return ["callable", [rec(x) for x in s[1]], rec(s[2]), perm(kw) if p(0.7) else kw]
    if k == "dictinc":
        entries = [[rec(a), rec(b), m, r] for a, b, m, r in s[1]]
        return ["dictinc", perm(entries) if (not force and p(0.25)) else entries]
    if k == "annot" and len(s) == 3:
        md = list(s[2])
        return ["annot", rec(s[1]), perm(md) if (not force and p(0.25)) else md]
    if k in ("list", "set", "dict", "tuple") and len(s) == 3 and isinstance(s[1], int):
        lab = s[1]
        if p(0.5) and not force:
            fresh[0] += 1
            lab = 5000 + fresh[0]
        return [k, lab, [rec(x) for x in s[2]]]
    return [rec(x) for x in s]


def has_permutable(s):
    """does the spec contain a constructor whose construction order is not part of equality?"""
    if not isinstance(s, list):
        return False
    if s and s[0] == "td" and len(s) == 4 and len(s[1]) > 1:
        return True
    if s and s[0] == "callable" and len(s) > 3 and len(s[3]) > 1:
        return True
    if s and s[0] in ("union", "unite") and len(s[1]) > 1:
        return True
    return any(has_permutable(x) for x in s)


def gen_permutable(rng):
    """a value whose outermost (or one-level nested) constructor has an order-insensitive field"""
    r = rng.random()
    if r < 0.4:
        names = rng.sample(["a", "b", "c"], rng.randrange(2, 4))
        core = ["td", [[n, gen_val(rng, 1), rng.random() < 0.7, rng.random() < 0.2] for n in names],
                gen_val(rng, 1) if rng.random() < 0.2 else None, rng.random() < 0.3]
    elif r < 0.7:
        kw = [[n, gen_val(rng, 1)] for n in rng.sample(["k", "l", "m"], rng.randrange(2, 4))]
        core = ["callable", [gen_val(rng, 1) for _ in range(rng.randrange(2))], gen_val(rng, 1), kw]
    elif r < 0.85:
        core = ["unite", [gen_val(rng, 1) for _ in range(rng.randrange(2, 4))]]
    else:
        # a directly built union with a repeated member, possibly through a nested union
        ms = [gen_val(rng, 1, allow_union=False) for _ in range(rng.randrange(2, 4))]
        rep = ms[rng.randrange(len(ms))]
        core = ["union", ms + [rep]] if rng.random() < 0.5 else ["union", [["union", ms], rep]]
    w = rng.random()
    if w < 0.5:
        return core
    if w < 0.65:
        return ["seq", "tuple", [[False, core], [False, gen_val(rng, 0)]]]
    if w < 0.8:
        return ["generic", "list", [core]]
    if w < 0.9:
        return ["dictinc", [[["known", ["str", "k"]], core, False, True]]]
    return ["unite", [core, gen_val(rng, 1)]]


UNION_SIZES = [9, 10, 11, 16]  # MultiValuedValue switches to a hashed fast path at 10 members: both sides of the threshold


def gen_large_union(rng, raw_ok=True):
    """a union with 9 / 10 / 11 / 16 distinct members mixing hashable literals, unhashable literals, classes,
    Annotated literals, sequences and callables"""
    n = rng.choice(UNION_SIZES)
    pool = [["known", ["int", k]] for k in range(20, 30)] + [["known", ["str", ch]] for ch in "pqrs"] + \
           [["known", ["list", 40 + k, [["int", k]]]] for k in range(3)] + [["known", ["dict", 50, []]], ["known", ["set", 51, [["int", 1]]]]] + \
           [["typed", c] for c in ("int", "str", "float", "A", "C", "bytes", "NoneType")] + \
           [["annot", ["known", ["int", 3]], [1]], ["annot", ["typed", "B"], [2]], ["known", ["tuple", 60, [["int", 1], ["bool", True]]]],
            ["known", ["tuple", 61, [["list", 62, []]]]], ["generic", "list", [["typed", "int"]]], ["seq", "tuple", [[False, ["typed", "str"]]]],
            ["callable", [["typed", "int"]], ["typed", "str"], []], ["callable", [], ["typed", "int"], [["k", ["typed", "int"]]]],
            ["known", ["none"]], ["known", ["bool", True]], ["known", ["float", 1.5]], ["known", ["e", "a"]], ["known", ["class", "A"]]]
    members = rng.sample(pool, n)
    if not any(m[0] == "known" and m[1][0] in ("list", "dict", "set") for m in members):
        members[rng.randrange(n)] = ["known", ["list", 40, [["int", 0]]]]  # at least one unhashable literal
    return [rng.choice(["unite", "union"]) if raw_ok else "unite", members]


def gen_hidden_tv(rng):
    """a callable whose only type variable sits where Value.walk_values does not look although
    substitute_typevars does (the extra-items type of a closed TypedDict), in parameter or return position"""
    tv = ["tv", rng.randrange(3), None, []]
    td = ["td", [[rng.choice(["a", "b"]), ["typed", rng.choice(["str", "int"])], True, False]], tv if rng.random() < 0.7 else ["generic", "list", [tv]], rng.random() < 0.3]
    if rng.random() < 0.5:
        core = ["callable", [td], ["typed", "NoneType"], []]
    else:
        core = ["callable", [["typed", "int"]], td, []]
    return core if rng.random() < 0.7 else ["unite", [core, ["typed", "int"]]]


def gen_case(rng, fresh):
    if rng.random() < 0.05:
        a = gen_hidden_tv(rng)
        b = variant(a, rng, fresh) if rng.random() < 0.5 else gen_val(rng, 2)
        c = gen_val(rng, 1)
        m = [[i, ["typed", rng.choice(["int", "str"])]] for i in range(3)]
        a, b, c, m = fix_labels([a, b, c, m])
        return {"a": a, "b": b, "c": c, "m": m}
    big = rng.random() < 0.08
    if big:
        # large unions as operands; b / c are members, sub-unions or variants, so that unite(a, b, c) stays large
        a = gen_large_union(rng)
        pick = rng.random()
        b = rng.choice(a[1]) if pick < 0.4 else (["unite", rng.sample(a[1], 3)] if pick < 0.7 else variant(a, rng, fresh))
        c = rng.choice(a[1]) if rng.random() < 0.6 else gen_val(rng, 1)
        m = [[i, gen_val(rng, 1)] for i in range(3) if rng.random() < 0.5]
        a, b, c, m = fix_labels([a, b, c, m])
        return {"a": a, "b": b, "c": c, "m": m}
    a = gen_permutable(rng) if rng.random() < 0.15 else gen_val(rng, 3)
    r = rng.random()
    if r < 0.15 and has_permutable(a):
        b = variant(a, rng, fresh, force=True)  # every order-insensitive constructor permuted, nothing else changed
    elif r < 0.40:
        b = variant(a, rng, fresh)
    elif r < 0.5 and a[0] in ("union", "unite") and a[1]:
        b = rng.choice(a[1])
    else:
        b = gen_val(rng, 3)
    r = rng.random()
    if r < 0.25:
        c = variant(rng.choice([a, b]), rng, fresh)
    elif r < 0.4:
        c = ["unite", [variant(a, rng, fresh), gen_val(rng, 2)]]
    else:
        c = gen_val(rng, 2)
    m = []
    for i in range(3):
        if rng.random() < 0.6:
            m.append([i, gen_val(rng, 2) if rng.random() < 0.8 else ["tv", rng.randrange(3), None, []]])
    a, b, c, m = fix_labels([a, b, c, m])
    return {"a": a, "b": b, "c": c, "m": m}
