"""Shared machinery for the /verif checks (see DESIGN.md §2).

Everything here runs under /venv/bin/python with PYTHONPATH=/repo.
"""
from __future__ import annotations

import hashlib
import json
import os
import re
import subprocess
import sys
import time
from pathlib import Path

VERIF = Path(__file__).resolve().parent.parent
REPO = Path(os.environ.get("VERIF_REPO", "/repo"))
COQ = VERIF / "coq"
THEORIES = COQ / "theories"
GEN = THEORIES / "Gen"
EVIDENCE = VERIF / "evidence"
REPLAYS = VERIF / "replays"
PY = "/venv/bin/python"

FORBIDDEN = re.compile(
    r"\b(Admitted|admit|Axiom|Axioms|Parameter|Parameters|Conjecture|Conjectures|"
    r"Hypothesis|Hypotheses|Variable|Variables|Abort)\b|Unset\s+Guard|bypass_check|"
    r"type-in-type|impredicative-set|Admit\s+Obligations|native_compute"
)


def env_for_impl(extra=None):
    e = dict(os.environ)
    e["PYTHONPATH"] = str(REPO)
    e.setdefault("PYTHONHASHSEED", "0")
    e["PYTHONDONTWRITEBYTECODE"] = "1"
    if extra:
        e.update(extra)
    return e


def seed() -> int:
    try:
        return int(os.environ.get("VERIF_SEED", "0"))
    except ValueError:
        return 0


def sh(cmd, timeout=600, cwd=None, env=None, input=None):
    """Run a command, return (rc, stdout+stderr) with conda noise removed."""
    try:
        p = subprocess.run(
            cmd,
            cwd=cwd,
            env=env,
            input=input,
            stdout=subprocess.PIPE,
            stderr=subprocess.STDOUT,
            timeout=timeout,
            text=True,
            shell=isinstance(cmd, str),
        )
        out = "\n".join(l for l in p.stdout.splitlines() if "conda.cli.condarc" not in l)
        return p.returncode, out
    except subprocess.TimeoutExpired as ex:
        out = ex.stdout or ""
        if isinstance(out, bytes):
            out = out.decode("utf-8", "replace")
        return 124, out + f"\nTIMEOUT after {timeout}s"


# ----------------------------------------------------------------------------
# Coq build


def write_if_changed(path: Path, text: str) -> bool:
    path.parent.mkdir(parents=True, exist_ok=True)
    if path.exists() and path.read_text() == text:
        return False
    path.write_text(text)
    return True


def coq_sources():
    # Extract/*.v are compiled only by ocaml_build (they write .ml files)
    return sorted(str(p.relative_to(COQ)) for p in THEORIES.rglob("*.v") if "Extract" not in p.parts)


def coq_prepare():
    """(Re)generate _CoqProject / Makefile when the set of source files changed."""
    proj = "-Q theories PV\n-arg -w -arg -notation-overridden,-deprecated-hint-without-locality,-deprecated-instance-without-locality\n" + "\n".join(coq_sources()) + "\n"
    changed = write_if_changed(COQ / "_CoqProject", proj)
    if changed or not (COQ / "Makefile").exists():
        rc, out = sh(["coq_makefile", "-f", "_CoqProject", "-o", "Makefile"], cwd=COQ, timeout=120)
        if rc != 0:
            raise RuntimeError("coq_makefile failed:\n" + out)


def coq_make(targets, timeout=1500, jobs=8):
    """make the given .vo targets (paths relative to coq/).  Returns (ok, log)."""
    coq_prepare()
    rc, out = sh(["make", f"-j{jobs}", *targets], cwd=COQ, timeout=timeout)
    return rc == 0, out


def coqc_file(rel, timeout=600):
    """Force-compile one file (deps must be built) and return (ok, output)."""
    rc, out = sh(
        ["coqc", "-q", "-Q", "theories", "PV", "-w", "-notation-overridden,-deprecated-hint-without-locality,-deprecated-instance-without-locality", rel],
        cwd=COQ,
        timeout=timeout,
    )
    return rc == 0, out


def parse_assumptions(out: str):
    """Parse the output of the `Print Assumptions` commands of a property file.
    Returns (n_closed, axioms: list[str])."""
    closed = len(re.findall(r"Closed under the global context", out))
    axioms = []
    for m in re.finditer(r"Axioms:\n((?:.+\n?)+?)(?:\n|$)", out):
        for line in m.group(1).splitlines():
            mm = re.match(r"^(\S+)\s*:", line)
            if mm:
                axioms.append(mm.group(1))
    return closed, sorted(set(axioms))


def scan_forbidden(files=None):
    """grep the development for constructs the task forbids.  Section-local
    Variable/Hypothesis/Context are allowed only inside a Section: we check
    that textually (every Variable/Hypothesis occurs between Section/End)."""
    bad = []
    for p in sorted(THEORIES.rglob("*.v")):
        if files is not None and p not in files:
            continue
        depth = 0
        txt = re.sub(r"\(\*.*?\*\)", "", p.read_text(), flags=re.S)
        for i, line in enumerate(txt.splitlines(), 1):
            if re.match(r"\s*(Section|Module)\s+\w+", line) and not re.match(r"\s*Module\s+Import", line):
                if re.match(r"\s*Section\s", line):
                    depth += 1
            if re.match(r"\s*End\s+\w+\s*\.", line) and depth > 0:
                depth -= 1
            for m in FORBIDDEN.finditer(line):
                w = m.group(0)
                if w.split()[0] in ("Variable", "Variables", "Hypothesis", "Hypotheses") and depth > 0:
                    continue
                bad.append(f"{p.relative_to(COQ)}:{i}: {w}")
    return bad


def count_theorems(rel):
    txt = (COQ / rel).read_text()
    txt = re.sub(r"\(\*.*?\*\)", "", txt, flags=re.S)
    return len(re.findall(r"^\s*(Theorem|Lemma|Corollary|Example)\s", txt, flags=re.M)), len(
        re.findall(r"^\s*Print Assumptions\s", txt, flags=re.M)
    )


class ProofResult:
    def __init__(self):
        self.ok = True
        self.obligations = 0
        self.discharged = 0
        self.axioms = []
        self.log = ""
        self.broken = []  # names of theorems / files that no longer check
        self.theorems = []


def prove(prop_id: str, gen_files: dict[str, str] | None = None, extra_targets=(), timeout=1500, thorough=False) -> ProofResult:
    """Regenerate Gen files, build the closure of Properties/<id>.vo, re-run the
    property file to capture Print Assumptions."""
    r = ProofResult()
    for name, text in (gen_files or {}).items():
        write_if_changed(GEN / name, text)
    rel = f"theories/Properties/{prop_id}.v"
    nthm, nprint = count_theorems(rel)
    r.obligations = nthm
    txt = re.sub(r"\(\*.*?\*\)", "", (COQ / rel).read_text(), flags=re.S)
    r.theorems = re.findall(r"^\s*(?:Theorem|Lemma|Corollary|Example)\s+(\w+)", txt, flags=re.M)
    bad = scan_forbidden()
    if bad:
        r.ok = False
        r.broken.append("forbidden constructs: " + "; ".join(bad[:5]))
    ok, log = coq_make([rel + "o", *extra_targets], timeout=timeout)
    r.log = log
    if not ok:
        r.ok = False
        m = re.findall(r'File "\./([^"]+)", line (\d+)', log)
        r.broken.append("build failed: " + (", ".join(f"{f}:{l}" for f, l in m[:3]) or log[-300:]))
        return r
    ok, out = coqc_file(rel)
    r.log += "\n" + out
    if not ok:
        r.ok = False
        r.broken.append("property file failed: " + out[-300:])
        return r
    closed, axioms = parse_assumptions(out)
    r.axioms = axioms
    if nprint != nthm:
        r.ok = False
        r.broken.append(f"{rel}: {nthm} theorems but {nprint} Print Assumptions")
    allowed = set(ALLOWED_AXIOMS)
    unexpected = [a for a in axioms if a not in allowed]
    if unexpected:
        r.ok = False
        r.broken.append("unexpected axioms: " + ", ".join(unexpected))
    n_with_axioms = len(re.findall(r"^Axioms:", out, flags=re.M))
    r.discharged = closed + n_with_axioms if not unexpected else closed
    if r.discharged != nthm:
        r.ok = False
        r.broken.append(f"{rel}: {nthm} theorems, {r.discharged} assumption reports")
    if thorough:
        rc, out = sh(["coqchk", "-silent", "-o", "-Q", "theories", "PV", f"PV.Properties.{prop_id}"], cwd=COQ, timeout=1200)
        r.log += "\ncoqchk:\n" + out[-3000:]
        if rc != 0:
            r.ok = False
            r.broken.append("coqchk failed")
    return r


# axioms of the standard library that a proof may depend on (named in DESIGN.md §7)
ALLOWED_AXIOMS = [
    "functional_extensionality_dep",
    "FunctionalExtensionality.functional_extensionality_dep",
    "Coq.Logic.FunctionalExtensionality.functional_extensionality_dep",
]


# ----------------------------------------------------------------------------
# Running the model inside Coq: cases.v + vm_compute


def coq_eval(header: str, defs: list[str], name="cases", timeout=600, shard=400, jobs=8):
    """Evaluate a list of Gallina terms (each of a type whose printed form is
    built from lists / numbers / booleans / options / pairs / constructors).
    Returns the printed results as parsed Python data, one per term.
    The terms are sharded into files of <= shard terms, compiled in parallel."""
    d = COQ / "cases"
    d.mkdir(exist_ok=True)
    shards = [defs[i : i + shard] for i in range(0, len(defs), shard)] or [[]]
    files = []
    tag = f"{name}_{os.getpid()}"
    for k, sh_defs in enumerate(shards):
        body = [header, "Set Printing Depth 1000000.", "Set Printing Width 1000000."]
        for j, t in enumerate(sh_defs):
            body.append(f"Definition c{j} := {t}.")
            body.append(f'Eval vm_compute in (c{j}).')
        f = d / f"{tag}_{k}.v"
        f.write_text("\n".join(body) + "\n")
        files.append(f)
    procs = []
    results = []
    import concurrent.futures as cf

    def run(f):
        return sh(
            ["coqc", "-q", "-Q", "theories", "PV", "-Q", "cases", "PVCases", "-w", "-notation-overridden", str(f.relative_to(COQ))],
            cwd=COQ,
            timeout=timeout,
        )

    with cf.ThreadPoolExecutor(max_workers=jobs) as ex:
        outs = list(ex.map(run, files))
    for f, (rc, out), sh_defs in zip(files, outs, shards):
        if rc != 0:
            raise RuntimeError(f"coq evaluation failed for {f}:\n{out[-2000:]}")
        vals = parse_eval_output(out)
        if len(vals) != len(sh_defs):
            raise RuntimeError(f"expected {len(sh_defs)} results, got {len(vals)} from {f}\n{out[:1000]}")
        results.extend(vals)
    for f in files:
        for ext in (".v", ".vo", ".glob", ".vok", ".vos"):
            try:
                f.with_suffix(ext).unlink()
            except FileNotFoundError:
                pass
        try:
            (f.parent / ("." + f.stem + ".aux")).unlink()
        except FileNotFoundError:
            pass
    return results


_TOK = re.compile(r"\s*(\[|\]|\(|\)|;|,|-?\d+|[A-Za-z_][A-Za-z_0-9'.]*|%[A-Za-z_]+|\"(?:[^\"]|\"\")*\")")


def parse_eval_output(out: str):
    """Split coqc output into `= term : type` chunks and parse each term."""
    chunks = re.split(r"^\s*= ", out, flags=re.M)[1:]
    vals = []
    for ch in chunks:
        # cut the trailing ': type' — the last top-level ':' (types contain no ':' )
        idx = ch.rfind("\n     : ")
        if idx < 0:
            idx = ch.rfind(" : ")
        term = ch[:idx]
        vals.append(parse_term(term))
    return vals


def parse_term(s: str):
    toks = [t for t in _TOK.findall(s) if not t.startswith("%")]
    pos = 0

    def atom():
        nonlocal pos
        t = toks[pos]
        if t == "[":
            pos += 1
            items = []
            if toks[pos] == "]":
                pos += 1
                return items
            while True:
                items.append(app())
                if toks[pos] == ";":
                    pos += 1
                    continue
                if toks[pos] == "]":
                    pos += 1
                    return items
                raise ValueError(f"bad list at {pos}: {toks[pos-3:pos+3]}")
        if t == "(":
            pos += 1
            items = [app()]
            while toks[pos] == ",":
                pos += 1
                items.append(app())
            if toks[pos] != ")":
                raise ValueError(f"bad paren at {pos}: {toks[pos-3:pos+3]}")
            pos += 1
            return items[0] if len(items) == 1 else tuple(items)
        pos += 1
        if re.fullmatch(r"-?\d+", t):
            return int(t)
        if t == "true":
            return True
        if t == "false":
            return False
        if t.startswith('"'):
            return t[1:-1].replace('""', '"')
        return Sym(t)

    def app():
        nonlocal pos
        if pos < len(toks) and toks[pos] == "-":
            pass
        head = atom()
        args = []
        while pos < len(toks) and toks[pos] not in ("]", ")", ";", ","):
            args.append(atom())
        if args:
            if isinstance(head, Sym):
                if head.name == "Some" and len(args) == 1:
                    return ("Some", args[0])
                return (head.name, *args)
            raise ValueError(f"application of non-symbol {head}")
        if isinstance(head, Sym):
            if head.name == "None":
                return None
            return head.name
        return head

    v = app()
    if pos != len(toks):
        raise ValueError(f"trailing tokens: {toks[pos:pos+5]} in {s[:200]}")
    return v


class Sym:
    def __init__(self, name):
        self.name = name

    def __repr__(self):
        return self.name


# ----------------------------------------------------------------------------
# Coq literal printers


def cz(n: int) -> str:
    return f"({n})%Z"


def cn(n: int) -> str:
    return f"{n}%N"


def cnat(n: int) -> str:
    return f"{n}%nat"


def cbool(b) -> str:
    return "true" if b else "false"


def clist(items) -> str:
    return "[" + "; ".join(items) + "]"


def copt(x) -> str:
    return "None" if x is None else f"(Some {x})"


# ----------------------------------------------------------------------------
# Known findings, replays, evidence


def load_known_findings(prop_id=None):
    """Known findings: the committed file known_findings.json (assembled by
    tools/build_manifest.py from known_findings.d/*.json).  Never written by a check."""
    out = {"findings": [], "fixed": []}
    p = VERIF / "known_findings.json"
    srcs = [p] if p.exists() else []
    srcs += sorted((VERIF / "known_findings.d").glob("*.json"))
    seen = set()
    for s in srcs:
        d = json.loads(s.read_text())
        for k in ("findings", "fixed"):
            for e in d.get(k, []):
                key = json.dumps(e, sort_keys=True)
                if key in seen:
                    continue
                seen.add(key)
                if prop_id is None or e.get("property") == prop_id:
                    out[k].append(e)
    return out


def write_replay(prop_id: str, payload: dict) -> Path:
    REPLAYS.mkdir(exist_ok=True)
    blob = json.dumps(payload, sort_keys=True, default=str)
    h = hashlib.sha1(blob.encode()).hexdigest()[:8]
    p = REPLAYS / f"{prop_id}-{h}.json"
    p.write_text(json.dumps(payload, indent=1, sort_keys=True, default=str))
    return p


class Report:
    """Collects the outcome of one check run and produces stdout + evidence."""

    def __init__(self, prop_id: str, tier: str, level: str = "proof"):
        self.prop_id = prop_id
        self.tier = tier
        self.level = level
        self.t0 = time.time()
        self.violations = []  # (payload, no_input: bool)
        self.known_seen = {}  # finding id -> description
        self.coverage = {}
        self.assumptions = []
        self.harness_errors = []

    def violation(self, payload: dict, no_failing_input=False):
        self.violations.append((payload, no_failing_input))

    def known(self, fid: str, what: str):
        self.known_seen.setdefault(fid, what)

    def harness_error(self, msg: str):
        self.harness_errors.append(msg)

    def finish(self, proof: ProofResult | None, checker_cmd: str, trusted_base: list[str]):
        cov = dict(self.coverage)
        if proof is not None:
            cov.setdefault("obligations", proof.obligations)
            cov.setdefault("discharged", proof.discharged)
            cov["theorems"] = proof.theorems
            cov["axioms_reported_by_print_assumptions"] = proof.axioms
        cov.setdefault("checker_cmd", checker_cmd)
        cov.setdefault("trusted_base", trusted_base)
        cov.setdefault("evaluations", 0)
        cov.setdefault("distinct_nontrivial", 0)
        cov["known_findings_observed"] = sorted(self.known_seen)
        ev = {
            "property_id": self.prop_id,
            "tier": self.tier,
            "seed": seed(),
            "level": self.level,
            "coverage": cov,
            "assumptions": self.assumptions,
            "wall_s": round(time.time() - self.t0, 2),
            "violations": len(self.violations),
        }
        if not os.environ.get("VERIF_REPLAY"):  # a replay run re-evaluates one input; it is not evidence
            EVIDENCE.mkdir(exist_ok=True)
            (EVIDENCE / f"{self.prop_id}.json").write_text(json.dumps(ev, indent=1, default=str) + "\n")
        for fid, what in sorted(self.known_seen.items()):
            print(f"KNOWN-FINDING: property={self.prop_id} {fid}: {what}")
        if self.harness_errors:
            for m in self.harness_errors:
                print(f"HARNESS-ERROR: property={self.prop_id} {m}", file=sys.stderr)
        seen = set()
        for payload, no_input in self.violations[:20]:
            payload = dict(payload)
            payload.setdefault("property", self.prop_id)
            payload.setdefault("tier", self.tier)
            payload.setdefault("seed", seed())
            p = write_replay(self.prop_id, payload)
            if p in seen:
                continue
            seen.add(p)
            tail = " no-failing-input-found" if no_input else ""
            print(f"VIOLATION property={self.prop_id} replay={p}{tail}")
        if self.violations:
            return 1
        if self.harness_errors:
            return 2
        print(f"OK property={self.prop_id} tier={self.tier} wall={ev['wall_s']}s "
              f"obligations={cov.get('obligations')} discharged={cov.get('discharged')} "
              f"evaluations={cov.get('evaluations')}")
        return 0


def run_impl_script(script: str, payload, timeout=900, extra_env=None):
    """Run harness/<script> under the venv python with JSON stdin/stdout."""
    rc, out = sh(
        [PY, str(VERIF / "harness" / script)],
        input=json.dumps(payload),
        env=env_for_impl(extra_env),
        timeout=timeout,
        cwd="/",
    )
    # the script prints one JSON document on the last line starting with @@JSON
    for line in reversed(out.splitlines()):
        if line.startswith("@@JSON "):
            return json.loads(line[7:])
    raise RuntimeError(f"impl script {script} produced no result (rc={rc}):\n{out[-3000:]}")


# ----------------------------------------------------------------------------
# Running the model extracted to OCaml (for volume)


def ocaml_build(name: str, extract_rel: str, driver_ml: str, timeout=900):
    """Build an OCaml executable from an extraction file.

    extract_rel : e.g. "theories/Extract/ExtractC05.v"; it must contain
                  `Extraction "<name>.ml" f g ...` (a bare file name: coqc is
                  run with cwd = coq/extracted/<name>/ so the .ml lands there)
                  and use `Require Import ExtrOcamlBasic` only.
    driver_ml   : path (relative to /verif/ocaml/) of the hand-written driver,
                  which does `open <Name>` and reads stdin / writes stdout.
    Returns the path of the executable.  Dependencies of the extraction file
    must already be built (call prove()/coq_make first)."""
    out = COQ / "extracted" / name
    out.mkdir(parents=True, exist_ok=True)
    rc, log = sh(
        ["coqc", "-q", "-Q", str(THEORIES), "PV", "-w", "-notation-overridden,-extraction", str(COQ / extract_rel)],
        cwd=out,
        timeout=timeout,
    )
    if rc != 0:
        raise RuntimeError(f"extraction {extract_rel} failed:\n{log[-2000:]}")
    drv = VERIF / "ocaml" / driver_ml
    (out / "driver.ml").write_text(drv.read_text())
    mls = [p.name for p in out.glob("*.ml") if p.name != "driver.ml"]
    mlis = [p.name for p in out.glob("*.mli")]
    rc, log = sh(
        ["ocamlfind", "ocamlopt", "-inline", "50", "-w", "-a", *sorted(mlis), *sorted(mls), "driver.ml", "-o", "model"],
        cwd=out,
        timeout=timeout,
    )
    if rc != 0:
        raise RuntimeError(f"ocaml build for {name} failed:\n{log[-2000:]}")
    return out / "model"


def ocaml_run(exe, lines, timeout=900):
    """Feed lines to the extracted model, get one output line per input line."""
    rc, out = sh([str(exe)], input="\n".join(lines) + "\n", timeout=timeout)
    if rc != 0:
        raise RuntimeError(f"model run failed rc={rc}:\n{out[-2000:]}")
    res = out.splitlines()
    if len(res) != len(lines):
        raise RuntimeError(f"model printed {len(res)} lines for {len(lines)} inputs\n{out[:500]}")
    return res
