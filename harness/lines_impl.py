"""Driving the real pyanalyze for the line/file family (C11, C16).

run_case(text, cfg) runs NameCheckVisitor on one module and returns the list
of failures plus the *raw stream*: every call of show_error that is not inside
catch_errors, recorded by a subclass defined here (no hook in /repo).

cfg = {"cli_off": [names], "cli_on": [names], "top_off": [names],
       "override": [module_prefix, [names]] | None, "module": "pa.pb",
       "add_ignores": bool, "apply": bool}
"""
from __future__ import annotations

import ast
import contextlib
import io
import os
import shutil
import sys
import tempfile
import types
from pathlib import Path

_STATE = {}


def _setup():
    if _STATE:
        return _STATE
    from pyanalyze.error_code import DISABLED_IN_TESTS, ErrorCode
    from pyanalyze.name_check_visitor import ClassAttributeChecker, NameCheckVisitor
    from pyanalyze.test_config import CONFIG_PATH

    class RecordingVisitor(NameCheckVisitor):
        config_filename = str(CONFIG_PATH)
        raw_stream = None

        def show_error(self, node, e=None, error_code=None, **kw):
            if self.caught_errors is None and self.raw_stream is not None:
                # keep the node alive: id() must stay unique for the whole run
                self.raw_stream.append((node, error_code, kw.get("obey_ignore", True), kw.get("replacement")))
            return super().show_error(node, e, error_code, **kw)

    def _apply_changes_to_lines(cls, changes, input_lines):
        if changes:
            ch = changes[0]
            RecordingVisitor.applied = {"del": list(ch.linenos_to_delete),
                                        "add": None if ch.lines_to_add is None else list(ch.lines_to_add),
                                        "n_changes": len(changes)}
        return NameCheckVisitor._apply_changes_to_lines.__func__(cls, changes, input_lines)

    RecordingVisitor.applied = None
    RecordingVisitor._apply_changes_to_lines = classmethod(_apply_changes_to_lines)

    _STATE.update(V=RecordingVisitor, CAC=ClassAttributeChecker, ErrorCode=ErrorCode, DIT=DISABLED_IN_TESTS, CONFIG_PATH=CONFIG_PATH)
    return _STATE


def code_names():
    s = _setup()
    return [c.name for c in s["ErrorCode"]]


def _make_module(code_str, name, counter=[0]):
    counter[0] += 1
    mod = types.ModuleType(name)
    scope = mod.__dict__
    scope["__name__"] = name
    scope["__file__"] = f"verif_lines_{os.getpid()}_{counter[0]}.py"
    code = compile(code_str, scope["__file__"], "exec")
    exec(code, scope)
    sys.modules[name] = mod
    return mod


def run_case(text: str, cfg: dict):
    """-> {"out": [[code, line, col]], "raw": [[node_idx, code|None, line|0, col|0, obey]],
           "new_text": str|None, "error": str|None}"""
    s = _setup()
    V, ErrorCode = s["V"], s["ErrorCode"]
    from pyanalyze.options import ConfigOption

    tmp = None
    modname = cfg.get("module", "pa.pb")
    try:
        tree = ast.parse(text, "<verif>")
        with contextlib.redirect_stdout(io.StringIO()), contextlib.redirect_stderr(io.StringIO()):
            mod = _make_module(text, modname)
    except BaseException as ex:  # generated program does not import cleanly
        return {"out": [], "raw": [], "new_text": None, "error": f"module setup failed: {ex!r}"}
    try:
        settings = {c: c not in s["DIT"] for c in ErrorCode}
        for n in cfg.get("cli_on", ()):
            settings[getattr(ErrorCode, n)] = True
        for n in cfg.get("cli_off", ()):
            settings[getattr(ErrorCode, n)] = False
        top_off = list(cfg.get("top_off", ()))
        top_on = list(cfg.get("top_on", ()))
        ext_off = list(cfg.get("ext_off", ()))
        ext_on = list(cfg.get("ext_on", ()))
        override = cfg.get("override")
        kwargs = {}
        if top_off or top_on or ext_off or ext_on or override:
            # codes steered by the config files get no command-line instance, unless the configuration
            # names them on the command line as well (a command-line entry on top of a config layer)
            steered = set(top_off) | set(top_on) | set(ext_off) | set(ext_on) | set(override[1] if override else ())
            steered -= set(cfg.get("cli_on", ())) | set(cfg.get("cli_off", ()))
            for n in steered:
                settings.pop(getattr(ErrorCode, n), None)
            tmp = tempfile.mkdtemp(prefix="c11cfg_")
            base_cfg_path = s["CONFIG_PATH"]
            if ext_off or ext_on:
                # an extended file between the main file and the test configuration
                ext = ["[tool.pyanalyze]", f'extend_config = "{s["CONFIG_PATH"]}"'] + [f"{n} = false" for n in ext_off] + [f"{n} = true" for n in ext_on]
                base_cfg_path = os.path.join(tmp, "ext.toml")
                with open(base_cfg_path, "w") as fh:
                    fh.write("\n".join(ext) + "\n")
            lines = ["[tool.pyanalyze]", f'extend_config = "{base_cfg_path}"']
            for n in top_off:
                lines.append(f"{n} = false")
            for n in top_on:
                lines.append(f"{n} = true")
            if override:
                for n in override[1]:
                    if n not in top_off and n not in top_on:
                        lines.append(f"{n} = true")
                lines.append("[[tool.pyanalyze.overrides]]")
                lines.append(f'module = "{override[0]}"')
                for n in override[1]:
                    lines.append(f"{n} = false")
            p = os.path.join(tmp, "pyproject.toml")
            with open(p, "w") as fh:
                fh.write("\n".join(lines) + "\n")
            kwargs["config_file"] = Path(p)
        kwargs["settings"] = settings
        with contextlib.redirect_stdout(io.StringIO()), contextlib.redirect_stderr(io.StringIO()):
            kwargs = V.prepare_constructor_kwargs(kwargs)
            raw = []
            apply_changes = bool(cfg.get("apply"))
            with s["CAC"](enabled=True, options=kwargs["checker"].options) as ac:
                v = V(mod.__name__, text, tree, module=mod, attribute_checker=ac,
                      add_ignores=bool(cfg.get("add_ignores")), **kwargs)
                v.raw_stream = raw
                V.applied = None
                res = v.check_for_test(apply_changes=apply_changes)
                new_text = None
                if apply_changes:
                    res, new_text = res
                res = list(res) + list(v.perform_final_checks(kwargs))
        ids = {}
        raw_out = []
        for node, code, obey, repl in raw:
            if type(node).__name__ == "_FakeNode":
                continue  # the final passes (unused / bare ignores): produced by the model itself
            k = id(node)
            idx = ids.setdefault(k, len(ids) + 1)
            raw_out.append([idx, getattr(code, "name", None), getattr(node, "lineno", None) or 0,
                            getattr(node, "col_offset", None) or 0, 1 if obey else 0])
        out = [[f["code"].name if "code" in f else None, f.get("lineno") or 0, f.get("col_offset") or 0] for f in res]
        desc = [str(f.get("description", "")) for f in res]
        return {"out": out, "raw": raw_out, "new_text": new_text, "error": None, "applied": V.applied, "desc": desc}
    except BaseException as ex:
        import traceback

        return {"out": [], "raw": [], "new_text": None, "error": "crash: " + traceback.format_exc()[-1500:]}
    finally:
        sys.modules.pop(modname, None)
        if tmp:
            shutil.rmtree(tmp, ignore_errors=True)


def run_many(jobs):
    """jobs: list of (text, cfg).  Used through a process pool."""
    return [run_case(t, c) for t, c in jobs]


def pool_map(jobs, workers=6, chunk=12):
    """Run jobs in `workers` processes, preserving order."""
    import concurrent.futures as cf
    import multiprocessing as mp

    if len(jobs) <= 3:
        return run_many(jobs)
    chunks = [jobs[i : i + chunk] for i in range(0, len(jobs), chunk)]
    ctx = mp.get_context("fork")
    out = []
    with cf.ProcessPoolExecutor(max_workers=workers, mp_context=ctx) as ex:
        for r in ex.map(run_many, chunks):
            out.extend(r)
    return out


# ---------------------------------------------------------------------------
# multi-module runs through the command-line path (prepare_constructor_kwargs + _run)

def run_multi(job):
    """job = {"modules": {name: text}, "toml": str, "settings_off": [code names], "tag": str}
    Writes the modules into a fresh directory on sys.path and checks them together the way the CLI does
    (NameCheckVisitor._run builds the ClassAttributeChecker and runs the final checks itself).
    -> {"out": [[module, code, line, col]], "error": str|None}"""
    from pyanalyze.error_code import ErrorCode
    from pyanalyze.name_check_visitor import NameCheckVisitor

    tmp = tempfile.mkdtemp(prefix="c11multi_")
    names = list(job["modules"])
    try:
        sys.path.insert(0, tmp)
        files = []
        for n, text in job["modules"].items():
            p = os.path.join(tmp, n + ".py")
            with open(p, "w", encoding="utf-8") as fh:
                fh.write(text)
            files.append(p)
        cfgp = os.path.join(tmp, "pyproject.toml")
        with open(cfgp, "w") as fh:
            fh.write(job["toml"])
        settings = {getattr(ErrorCode, c): False for c in job.get("settings_off", ())}
        settings.update({getattr(ErrorCode, c): True for c in job.get("settings_on", ())})
        with contextlib.redirect_stdout(io.StringIO()), contextlib.redirect_stderr(io.StringIO()):
            kwargs = NameCheckVisitor.prepare_constructor_kwargs(
                {"files": files, "config_file": Path(cfgp), "settings": settings, "assert_passes": False})
            failures = NameCheckVisitor._run(**kwargs)
        out = []
        for f in failures or []:
            code = f.get("code")
            out.append([os.path.basename(f["filename"])[:-3], getattr(code, "name", None), f.get("lineno") or 0, f.get("col_offset") or 0])
        return {"out": out, "error": None}
    except BaseException:
        import traceback

        return {"out": [], "error": "crash: " + traceback.format_exc()[-1200:]}
    finally:
        if tmp in sys.path:
            sys.path.remove(tmp)
        for n in names:
            sys.modules.pop(n, None)
        shutil.rmtree(tmp, ignore_errors=True)


def pool_map_fn(fn, jobs, workers=6):
    import concurrent.futures as cf
    import multiprocessing as mp

    if len(jobs) <= 2:
        return [fn(j) for j in jobs]
    with cf.ProcessPoolExecutor(max_workers=workers, mp_context=mp.get_context("fork")) as ex:
        return list(ex.map(fn, jobs, chunksize=2))
