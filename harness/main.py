"""Entry point: python -m harness.main <ID> [--tier quick|thorough] [--replay F]"""
import argparse
import importlib
import os
import sys
import traceback
from pathlib import Path

HERE = Path(__file__).resolve().parent
sys.path.insert(0, str(HERE))

import lib  # noqa: E402


def main():
    ap = argparse.ArgumentParser()
    ap.add_argument("prop")
    ap.add_argument("--tier", default=os.environ.get("VERIF_TIER", "quick"), choices=["quick", "thorough"])
    ap.add_argument("--replay", default=None)
    a = ap.parse_args()
    pid = a.prop.upper()
    if a.replay:
        os.environ["VERIF_REPLAY"] = "1"
    try:
        mod = importlib.import_module(pid.lower())
    except ModuleNotFoundError:
        print(f"no check for {pid}", file=sys.stderr)
        return 3
    try:
        return mod.run(a.tier, a.replay)
    except Exception:
        # the machinery itself failed: the property is no longer shown to hold
        tb = traceback.format_exc()
        p = lib.write_replay(pid, {"property": pid, "kind": "broken-correspondence", "correspondence": "harness crashed", "detail": tb[-3000:]})
        print(tb, file=sys.stderr)
        print(f"VIOLATION property={pid} replay={p} no-failing-input-found")
        return 1


if __name__ == "__main__":
    sys.exit(main())
