"""setup: regenerate every Gen/*.v from /repo and build all of coq/theories."""
import sys
from pathlib import Path

sys.path.insert(0, str(Path(__file__).resolve().parent))
import lib  # noqa: E402
import gen_all  # noqa: E402


def main():
    for name, text in gen_all.all_gen_files().items():
        lib.write_if_changed(lib.GEN / name, text)
    lib.coq_prepare()
    # -k: one broken file must not stop the other properties from building; each
    # check rebuilds what it needs and reports a broken obligation itself
    rc, out = lib.sh(["make", "-k", "-j12"], cwd=lib.COQ, timeout=3000)
    print(out[-3000:])
    if rc != 0:
        print("setup: some Coq files did not build (reported by the checks that need them)")
    return 0


if __name__ == "__main__":
    sys.exit(main())
