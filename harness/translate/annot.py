"""Translator: pyanalyze/annotations.py, functions.py, arg_spec.py -> coq/theories/Gen/Annot.v  (C13).

What is extracted (and consumed by Annot/Routes.v, Annot/DefSig.v):
  * ast_table : for every annotation form of the model, what the branch of
    `_type_from_subscripted_value` recognising it *does* (an `action`), in source order;
  * rt_table  : the same for `_value_of_origin_args`;
  * ast_visit_starred : whether `_Visitor` has the Unpack-desugaring `visit_Starred`;
  * def_kind_order : the order in which `compute_parameters` assembles parameter kinds;
  * gen_wrap : `translate_vararg_type` for *args / **kwargs;
  * rt_kind  : the kind decision of `_make_sig_parameter` (private names).
What is pinned (statement shape compared with a template, fail-closed):
  `_Visitor.visit_Subscript/visit_BinOp/visit_Constant/visit_Tuple/visit_Starred`,
  `_eval_forward_ref`, the str branch of `_type_from_runtime`, the loop of `from_signature`
  that applies make_everything_pos_only, the annotated branch of `_get_type_for_parameter`.

A branch body is recognised by its normalised source text (ast.unparse); an
unknown text or test raises TranslateError (broken obligation).
"""
import ast
from pathlib import Path


class TranslateError(Exception):
    pass


def _fail(fname, node, why):
    txt = ast.unparse(node)[:200] if isinstance(node, ast.AST) else str(node)[:200]
    raise TranslateError(f"{fname}:{getattr(node, 'lineno', '?')}: {why}: {txt}")


def _func(tree, name, fname, cls=None):
    scope = tree
    if cls is not None:
        for n in ast.walk(tree):
            if isinstance(n, ast.ClassDef) and n.name == cls:
                scope = n
                break
        else:
            raise TranslateError(f"{fname}: class {cls} not found")
    for n in ast.walk(scope):
        if isinstance(n, ast.FunctionDef) and n.name == name:
            return n
    raise TranslateError(f"{fname}: function {name} not found")


def _branches(stmts):
    """flatten consecutive if / elif chains into [(test_src, body)] in source order; other statements are kept as (None, [stmt])"""
    out = []
    for st in stmts:
        if isinstance(st, ast.If):
            cur = st
            while True:
                out.append((ast.unparse(cur.test), cur.body))
                if len(cur.orelse) == 1 and isinstance(cur.orelse[0], ast.If):
                    cur = cur.orelse[0]
                else:
                    if cur.orelse:
                        out.append(("<else>", cur.orelse))
                    break
        else:
            out.append((None, [st]))
    return out


ERR_RETURN = "return AnyValue(AnySource.error)"


def _strip_guards(body):
    """drop leading `if <guard>: ctx.show_error(...); return AnyValue(AnySource.error)` statements; -> (guards, rest)"""
    guards = []
    rest = list(body)
    while rest and isinstance(rest[0], ast.If) and not rest[0].orelse:
        b = rest[0].body
        if len(b) == 2 and isinstance(b[0], ast.Expr) and ast.unparse(b[0]).startswith("ctx.show_error(") and ast.unparse(b[1]) == ERR_RETURN:
            guards.append(ast.unparse(rest[0].test))
            rest = rest[1:]
        else:
            break
    return guards, rest


def _text(stmts):
    return "\n".join(ast.unparse(s) for s in stmts)


# ---------------------------------------------------------------------------
# AST route: _type_from_subscripted_value

AST_TESTS = {
    "root is typing.Union": "FUnion",
    "is_typing_name(root, 'Literal')": "FLiteral",
    "_is_tuple(root)": "<tuple>",
    "root is typing.Optional": "FOptional",
    "root is typing.Type or root is type": "FType",
    "is_typing_name(root, 'Annotated')": "FAnnotated",
    "is_typing_name(root, 'Final')": "FFinal",
    "is_typing_name(root, 'ClassVar')": "FClassVar",
    "is_typing_name(root, 'Unpack')": "FUnpack",
    "root is Callable or root is typing.Callable": "FCallable",
    "isinstance(root, type)": "FGenericClass",
    "is_instance_of_typing_name(root, 'TypeAliasType')": "FTypeAlias",
}
AST_IGNORED = {  # recognised forms outside the model's vocabulary (their presence does not matter to the model)
    "is_typing_name(root, 'TypeGuard')", "is_typing_name(root, 'TypeIs')", "is_typing_name(root, 'Required')",
    "is_typing_name(root, 'NotRequired')", "is_typing_name(root, 'ReadOnly')", "root is AsynqCallable", "<else>",
}
AST_ACTIONS = {
    "return unite_values(*[_type_from_value(elt, ctx) for elt in members])": "ActUniteMembers",
    "members = _flatten_literal_members(members)\nif all((isinstance(elt, KnownValue) for elt in members)):\n    return unite_values(*members)\nelse:\n    ctx.show_error(f'Arguments to Literal[] must be literals, not {members}')\n    return AnyValue(AnySource.error)": "(ActUniteLiterals true)",
    "if all((isinstance(elt, KnownValue) for elt in members)):\n    return unite_values(*members)\nelse:\n    ctx.show_error(f'Arguments to Literal[] must be literals, not {members}')\n    return AnyValue(AnySource.error)": "(ActUniteLiterals false)",
    "return GenericValue(tuple, [_type_from_value(members[0], ctx)])": "ActGenericTuple1",
    "return SequenceValue(tuple, [])": "ActSeqEmpty",
    "return _make_sequence_value(tuple, [_type_from_value(arg, ctx, allow_unpack=True) for arg in members], ctx)": "ActSeqMembers",
    "return unite_values(KnownValue(None), _type_from_value(members[0], ctx))": "(ActOptional true)",
    "return unite_values(_type_from_value(members[0], ctx), KnownValue(None))": "(ActOptional false)",
    "argument = _type_from_value(members[0], ctx)\nreturn SubclassValue.make(argument)": "ActSubclassMake",
    "origin, *metadata = members\nreturn _make_annotated(_type_from_value(origin, ctx), metadata, ctx)": "ActAnnotated",
    "return _type_from_value(members[0], ctx)": "ActTransparent",
    "return UnpackedValue(_type_from_value(members[0], ctx))": "ActUnpacked",
    "if len(members) == 2:\n    args, return_value = members\n    return _make_callable_from_value(args, return_value, ctx)\nctx.show_error('Callable requires exactly two arguments')\nreturn AnyValue(AnySource.error)": "ActCallable",
    "return GenericValue(root, [_type_from_value(elt, ctx) for elt in members])": "ActGenericOf",
    "alias_object = cast(Any, root)\nalias = ctx.get_type_alias(root, lambda: type_from_runtime(alias_object.__value__, ctx=ctx), lambda: alias_object.__type_params__)\nreturn TypeAliasValue(alias_object.__name__, alias_object.__module__, alias, tuple((_type_from_value(elt, ctx) for elt in members)))": "ActAliasOf",
}
TUPLE_AST = {
    "len(members) == 2 and members[1] == KnownValue(Ellipsis)": "FTupleVar",
    "len(members) == 1 and members[0] == KnownValue(())": "FTupleEmpty",
    "<else>": "FTupleFixed",
}
ARITY1 = {"len(members) != 1", "len(args) != 1"}
# "at least one argument" (Annotated[()] can only be written as a string / AST: typing itself refuses to build it)
ARITY_NONEMPTY = {"not members", "not args"}
CONTEXT_GUARDS = {"not allow_unpack", "not is_typeddict"}


def _action(fname, body, actions, want_arity1):
    guards, rest = _strip_guards(body)
    for g in guards:
        if g not in ARITY1 and g not in ARITY_NONEMPTY and g not in CONTEXT_GUARDS:
            _fail(fname, body[0], f"unknown guard `{g}`")
    txt = _text(rest)
    # a leading comment-only TODO does not appear in the AST; nothing to strip
    if txt not in actions:
        _fail(fname, rest[0] if rest else body[0], "branch body not recognised")
    return actions[txt]


def translate_ast_route(tree, fname):
    fn = _func(tree, "_type_from_subscripted_value", fname)
    # the dispatch on the runtime object starts after `root = root.val`
    idx = None
    for i, st in enumerate(fn.body):
        if isinstance(st, ast.Assign) and ast.unparse(st) == "root = root.val":
            idx = i
    if idx is None:
        _fail(fname, fn, "`root = root.val` not found")
    table = []
    seen = set()
    for test, body in _branches(fn.body[idx + 1 :]):
        if test is None:
            _fail(fname, body[0], "statement outside the dispatch chain")
        if test in AST_IGNORED:
            continue
        if test not in AST_TESTS:
            _fail(fname, body[0], f"unknown dispatch test `{test}`")
        form = AST_TESTS[test]
        if form == "<tuple>":
            for t2, b2 in _branches(body):
                if t2 not in TUPLE_AST:
                    _fail(fname, b2[0], f"unknown tuple sub-test `{t2}`")
                table.append((TUPLE_AST[t2], _action(fname, b2, AST_ACTIONS, False)))
                seen.add(TUPLE_AST[t2])
        else:
            table.append((form, _action(fname, body, AST_ACTIONS, False)))
            seen.add(form)
    return table


# ---------------------------------------------------------------------------
# runtime route: _value_of_origin_args

RT_TESTS = {
    "origin is type or origin is type": "FType",
    "_is_tuple(origin)": "<tuple>",
    "is_union(origin)": "FUnion",
    "origin is Callable or is_typing_name(origin, 'Callable')": "FCallable",
    "is_typing_name(origin, 'Annotated')": "FAnnotated",
    "isinstance(origin, type)": "FGenericClass",
    "is_typing_name(origin, 'Literal')": "FLiteral",
    "is_typing_name(origin, 'Final')": "FFinal",
    "is_typing_name(origin, 'ClassVar')": "FClassVar",
    "is_typing_name(origin, 'Unpack')": "FUnpack",
    "is_instance_of_typing_name(origin, 'TypeAliasType')": "FTypeAlias",
}
RT_IGNORED = {
    "is_typing_name(origin, 'TypeGuard')", "is_typing_name(origin, 'TypeIs')", "is_typing_name(origin, 'Required')",
    "is_typing_name(origin, 'NotRequired')", "is_typing_name(origin, 'ReadOnly')", "<else>",
}
RT_ACTIONS = {
    "if not args:\n    return TypedValue(type)\nreturn SubclassValue.make(_type_from_runtime(args[0], ctx))": "ActSubclassMake",
    "return SequenceValue(tuple, [])": "ActSeqEmpty",
    "return GenericValue(tuple, [_type_from_runtime(args[0], ctx)])": "ActGenericTuple1",
    "args_vals = [_type_from_runtime(_desugar_star(arg), ctx, allow_unpack=True) for arg in args]\nreturn _make_sequence_value(tuple, args_vals, ctx)": "ActSeqMembers",
    "args_vals = [_type_from_runtime(arg, ctx, allow_unpack=True) for arg in args]\nreturn _make_sequence_value(tuple, args_vals, ctx)": "ActSeqMembersStarLost",
    "return unite_values(*[_type_from_runtime(arg, ctx) for arg in args])": "ActUniteMembers",
    "if len(args) == 0:\n    return CallableValue(ANY_SIGNATURE)\n*arg_types, return_type = args\nif len(arg_types) == 1 and isinstance(arg_types[0], list):\n    arg_types = arg_types[0]\nparams = _callable_args_from_runtime(arg_types, 'Callable', ctx)\nsig = Signature.make(params, _type_from_runtime(return_type, ctx))\nreturn CallableValue(sig)": "ActCallable",
    "origin, *metadata = args\nreturn _make_annotated(_type_from_runtime(origin, ctx, is_typeddict=is_typeddict, allow_unpack=allow_unpack), [KnownValue(data) for data in metadata], ctx)": "ActAnnotated",
    "origin = _maybe_get_extra(origin)\nif args:\n    args_vals = [_type_from_runtime(val, ctx) for val in args]\n    return GenericValue(origin, args_vals)\nelse:\n    return _maybe_typed_value(origin)": "ActGenericOf",
    "if len(args) == 1:\n    return KnownValue(args[0])\nelse:\n    return unite_values(*[KnownValue(arg) for arg in args])": "(ActUniteLiterals true)",
    "return _type_from_runtime(args[0], ctx)": "ActTransparent",
    "return UnpackedValue(_type_from_runtime(args[0], ctx))": "ActUnpacked",
    "args_vals = [_type_from_runtime(val, ctx) for val in args]\nalias_object = cast(Any, origin)\nalias = ctx.get_type_alias(val, lambda: type_from_runtime(alias_object.__value__, ctx=ctx), lambda: alias_object.__type_params__)\nreturn TypeAliasValue(alias_object.__name__, alias_object.__module__, alias, tuple(args_vals))": "ActAliasOf",
}
TUPLE_RT = {
    "not args": "FTupleBare",
    "len(args) == 2 and args[1] is Ellipsis": "FTupleVar",
    "len(args) == 1 and args[0] == ()": "FTupleEmpty",
    "<else>": "FTupleFixed",
}


def translate_rt_route(tree, fname):
    fn = _func(tree, "_value_of_origin_args", fname)
    table = []
    for test, body in _branches(fn.body):
        if test is None:
            _fail(fname, body[0], "statement outside the dispatch chain")
        if test in RT_IGNORED:
            continue
        if test not in RT_TESTS:
            _fail(fname, body[0], f"unknown dispatch test `{test}`")
        form = RT_TESTS[test]
        if form == "<tuple>":
            for t2, b2 in _branches(body):
                if t2 not in TUPLE_RT:
                    _fail(fname, b2[0], f"unknown tuple sub-test `{t2}`")
                table.append((TUPLE_RT[t2], _action(fname, b2, RT_ACTIONS, False)))
        else:
            table.append((form, _action(fname, body, RT_ACTIONS, False)))
    return table


# ---------------------------------------------------------------------------
# pinned pieces

PINS_VISITOR = {
    "visit_Subscript": "def visit_Subscript(self, node: ast.Subscript) -> Value:\n    value = self.visit(node.value)\n    index = self.visit(node.slice)\n    if isinstance(index, SequenceValue):\n        members = index.get_member_sequence()\n        if members is None:\n            return AnyValue(AnySource.inference)\n        members = tuple(members)\n    else:\n        members = (index,)\n    return _SubscriptedValue(value, members)",
    "visit_Tuple": "def visit_Tuple(self, node: ast.Tuple) -> Value:\n    elts = [(False, self.visit(elt)) for elt in node.elts]\n    return SequenceValue(tuple, elts)",
    "visit_Constant": "def visit_Constant(self, node: ast.Constant) -> Value:\n    return KnownValue(node.value)",
    "visit_BinOp": "def visit_BinOp(self, node: ast.BinOp) -> Optional[Value]:\n    if isinstance(node.op, ast.BitOr):\n        return _SubscriptedValue(KnownValue(Union), (self.visit(node.left), self.visit(node.right)))\n    else:\n        return None",
    "visit_Name": "def visit_Name(self, node: ast.Name) -> Value:\n    return self.ctx.get_name(node)",
}
PIN_STARRED = "def visit_Starred(self, node: ast.Starred) -> Value:\n    return _SubscriptedValue(KnownValue(typing_extensions.Unpack), (self.visit(node.value),))"
PIN_FORWARD = "def _eval_forward_ref(val: str, ctx: Context, *, is_typeddict: bool=False, allow_unpack: bool=False) -> Value:\n    try:\n        tree = ast.parse(val, mode='eval')\n    except SyntaxError:\n        ctx.show_error(f'Syntax error in type annotation: {val}')\n        return AnyValue(AnySource.error)\n    else:\n        return _type_from_ast(tree.body, ctx, is_typeddict=is_typeddict, allow_unpack=allow_unpack)"


class _DropWith(ast.NodeTransformer):
    """`with <context manager>: body` -> body (context managers that only set evaluation flags)"""

    def visit_With(self, node):
        self.generic_visit(node)
        return node.body
PIN_STR_BRANCH = "if isinstance(val, str):\n    return _eval_forward_ref(val, ctx, is_typeddict=is_typeddict, allow_unpack=allow_unpack)"
PIN_GLOBALS = "def get_name_from_globals(self, name: str, globals: Mapping[str, Any]) -> Value:\n    if name in globals:\n        return KnownValue(globals[name])\n    elif hasattr(builtins, name):\n        return KnownValue(getattr(builtins, name))\n    return self.handle_undefined_name(name)"


def _strip_doc(fn):
    fn = ast.parse(ast.unparse(fn)).body[0]
    if fn.body and isinstance(fn.body[0], ast.Expr) and isinstance(fn.body[0].value, ast.Constant) and isinstance(fn.body[0].value.value, str):
        fn.body = fn.body[1:]
    return ast.unparse(fn)


def _pin(fname, fn, expected):
    got = _strip_doc(fn)
    if got != expected:
        _fail(fname, fn, f"`{fn.name}` no longer has the modelled statement shape")


def pins_annotations(tree, fname):
    for name, exp in PINS_VISITOR.items():
        _pin(fname, _func(tree, name, fname, cls="_Visitor"), exp)
    has_starred = False
    for n in ast.walk(tree):
        if isinstance(n, ast.ClassDef) and n.name == "_Visitor":
            for m in n.body:
                if isinstance(m, ast.FunctionDef) and m.name == "visit_Starred":
                    _pin(fname, m, PIN_STARRED)
                    has_starred = True
    fwd = ast.fix_missing_locations(_DropWith().visit(ast.parse(ast.unparse(_func(tree, "_eval_forward_ref", fname)))))
    _pin(fname, fwd.body[0], PIN_FORWARD)
    _pin(fname, _func(tree, "get_name_from_globals", fname, cls="Context"), PIN_GLOBALS)
    rt = _func(tree, "_type_from_runtime", fname)
    first = rt.body[0]
    if not isinstance(first, ast.If):
        _fail(fname, rt, "_type_from_runtime does not start with the str branch")
    if ast.unparse(ast.If(test=first.test, body=first.body, orelse=[])) != PIN_STR_BRANCH:
        _fail(fname, first, "str branch of _type_from_runtime changed")
    return has_starred


# ---------------------------------------------------------------------------
# signatures

KIND = {"POSITIONAL_ONLY": "PosOnly", "POSITIONAL_OR_KEYWORD": "PosOrKw", "VAR_POSITIONAL": "VarPos", "KEYWORD_ONLY": "KwOnly", "VAR_KEYWORD": "VarKw"}

PIN_RT_KIND = ("if parameter.kind == inspect.Parameter.POSITIONAL_OR_KEYWORD and is_positional_only_arg_name(parameter.name, _get_class_name(function_object)):\n"
               "    kind = ParameterKind.POSITIONAL_ONLY\n    make_everything_pos_only = True\nelse:\n    kind = ParameterKind(parameter.kind)\n    make_everything_pos_only = False")
PIN_POSONLY_LOOP = "if make_everything_pos_only:\n    parameters = [replace(param, kind=ParameterKind.POSITIONAL_ONLY) for param in parameters]"
PIN_ANNOTATED = ("if parameter.annotation is not inspect.Parameter.empty:\n    kind = ParameterKind(parameter.kind)\n    ctx = AnnotationsContext(self, func_globals)\n"
                 "    typ = type_from_runtime(parameter.annotation, ctx=ctx, allow_unpack=kind.allow_unpack())\n    return translate_vararg_type(kind, typ, self.ctx)")


PIN_DEF_PRIVATE = ("for i, (kind, arg) in enumerate(args):\n    if kind is ParameterKind.POSITIONAL_OR_KEYWORD and is_positional_only_arg_name(arg.arg):\n"
                   "        args[:i + 1] = [(ParameterKind.POSITIONAL_ONLY, earlier) for _, earlier in args[:i + 1]]")


def translate_signatures(repo):
    out = []
    # compute_parameters: order of kinds
    fname = "functions.py"
    tree = ast.parse((Path(repo) / "pyanalyze" / fname).read_text())
    fn = _func(tree, "compute_parameters", fname)
    order = []
    for st in fn.body:
        src = ast.unparse(st)
        if isinstance(st, (ast.Assign, ast.AnnAssign, ast.AugAssign, ast.If)) and ("args" in src) and "ParameterKind." in src:
            targets = ast.unparse(st.targets[0] if isinstance(st, ast.Assign) else st.target) if not isinstance(st, ast.If) else "args"
            if targets != "args":
                continue
            for n in ast.walk(st):
                if isinstance(n, ast.Attribute) and isinstance(n.value, ast.Name) and n.value.id == "ParameterKind":
                    if n.attr not in KIND:
                        _fail(fname, st, "unknown parameter kind")
                    order.append(KIND[n.attr])
        if isinstance(st, ast.For):
            break
    if len(order) != 5:
        _fail(fname, fn, f"expected five kinds in the assembly of `args`, found {order}")
    # the PEP 484 private-name rule in compute_parameters (a loop over `args` before the main loop)
    rule = False
    for st in fn.body:
        if isinstance(st, ast.For) and ast.unparse(st.iter) == "enumerate(args)" and "is_positional_only_arg_name" in ast.unparse(st):
            if ast.unparse(st) != PIN_DEF_PRIVATE:
                _fail(fname, st, "the private-name loop of compute_parameters changed")
            rule = True
    out.append("(* functions.py compute_parameters: is the PEP 484 `__x is positional-only` rule applied? *)")
    out.append(f"Definition def_private_rule : bool := {'true' if rule else 'false'}.")
    out.append("(* functions.py compute_parameters: the order in which `args` is assembled *)")
    out.append("Definition def_kind_order : list pkind := [" + "; ".join(order) + "].")
    # the SigParameter built at the end of the loop
    loop = [st for st in fn.body if isinstance(st, ast.For) and 'zip_longest' in ast.unparse(st.iter)][0]
    last = [ast.unparse(s) for s in loop.body[-3:]]
    if last != ["param = SigParameter(arg.arg, kind, default, value)", "info = ParamInfo(param, arg, is_self)", "params.append(info)"]:
        _fail(fname, loop, "the end of the parameter loop changed")
    # translate_vararg_type
    tv = _func(tree, "translate_vararg_type", fname)
    wraps = {}
    for test, body in _branches(tv.body):
        if test in ("kind is ParameterKind.VAR_POSITIONAL", "kind is ParameterKind.VAR_KEYWORD"):
            k = "VarPos" if "POSITIONAL" in test else "VarKw"
            last_else = [b for t, b in _branches(body) if t == "<else>"]
            if len(last_else) != 1:
                _fail(fname, body[0], "vararg wrapper: no final else")
            wraps[k] = ast.unparse(last_else[0][0])
    exp = {"VarPos": ("return GenericValue(tuple, [typ])", "TGeneric tuple_c [v]"), "VarKw": ("return GenericValue(dict, [TypedValue(str), typ])", "TGeneric dict_c [TTyped str_c; v]")}
    cases = []
    for k in ("VarPos", "VarKw"):
        if wraps.get(k) != exp[k][0]:
            _fail(fname, tv, f"translate_vararg_type: wrapper for {k} not recognised: {wraps.get(k)}")
        cases.append(f"  | {k} => {exp[k][1]}")
    if ast.unparse(tv.body[-1]) != "return typ":
        _fail(fname, tv, "translate_vararg_type does not end with `return typ`")
    out.append("(* functions.py translate_vararg_type (the non-Unpack, non-ParamSpec case) *)")
    out.append("Definition gen_wrap (k : pkind) (v : tval) : tval :=\n  match k with\n" + "\n".join(cases) + "\n  | _ => v\n  end.")
    # arg_spec.py
    fname = "arg_spec.py"
    tree = ast.parse((Path(repo) / "pyanalyze" / fname).read_text())
    mk = _func(tree, "_make_sig_parameter", fname)
    found = [st for st in mk.body if isinstance(st, ast.If) and ast.unparse(st) == PIN_RT_KIND]
    if len(found) != 1:
        _fail(fname, mk, "the kind decision of _make_sig_parameter changed")
    fs = _func(tree, "from_signature", fname)
    loops = [st for st in fs.body if isinstance(st, ast.For)]
    if not loops or not any(ast.unparse(s) == PIN_POSONLY_LOOP for s in loops[0].body):
        _fail(fname, fs, "from_signature no longer applies make_everything_pos_only to the earlier parameters")
    gt = _func(tree, "_get_type_for_parameter", fname)
    first = gt.body[0]
    if ast.unparse(ast.If(test=first.test, body=first.body, orelse=[])) != PIN_ANNOTATED:
        _fail(fname, gt, "annotated branch of _get_type_for_parameter changed")
    # the qualname walk that finds the owning class of an unannotated self
    walk = None
    for n in ast.walk(gt):
        if isinstance(n, ast.For) and ast.unparse(n.iter) == "class_names":
            walk = n
    if walk is None or not walk.body or not isinstance(walk.body[0], ast.Assign):
        _fail(fname, gt, "the qualname walk of _get_type_for_parameter not found")
    step = walk.body[0]
    call = step.value
    if not (ast.unparse(step.targets[0]) == "class_obj" and isinstance(call, ast.Call) and ast.unparse(call.func) == "getattr"
            and len(call.args) == 3 and ast.unparse(call.args[1]) == "class_name" and ast.unparse(call.args[2]) == "None"):
        _fail(fname, step, "unexpected step of the qualname walk")
    on = ast.unparse(call.args[0])
    if on not in ("class_obj", "module"):
        _fail(fname, step, "the qualname walk looks the component up on an unknown object")
    if [ast.unparse(x) for x in walk.body[1:]] != ["if class_obj is None:\n    break"]:
        _fail(fname, walk, "the qualname walk no longer stops at the first missing component")
    out.append("(* arg_spec.py _get_type_for_parameter: each qualname component is looked up on the object found in the previous step *)")
    out.append(f"Definition self_walk_on_previous : bool := {'true' if on == 'class_obj' else 'false'}.")
    out.append("(* arg_spec.py _make_sig_parameter: (kind, make_everything_pos_only) *)")
    out.append("Definition rt_kind (k : pkind) (is_private : bool) : pkind * bool :=\n  if (match k with PosOrKw => true | _ => false end) && is_private then (PosOnly, true) else (k, false).")
    return out


def translate(repo):
    fname = "annotations.py"
    tree = ast.parse((Path(repo) / "pyanalyze" / fname).read_text())
    has_starred = pins_annotations(tree, fname)
    a = translate_ast_route(tree, fname)
    r = translate_rt_route(tree, fname)
    lines = [
        "(* GENERATED by harness/translate/annot.py from pyanalyze/annotations.py, functions.py, arg_spec.py",
        "   -- do not edit, not committed. *)",
        "From Coq Require Import NArith ZArith List Bool.",
        "Import ListNotations.",
        "Require Import PV.Annot.Forms.",
        "",
        "(* annotations.py _type_from_subscripted_value: dispatch after `root = root.val`, in source order *)",
        "Definition ast_table : list (form * action) :=\n  [" + ";\n   ".join(f"({f}, {x})" for f, x in a) + "].",
        "",
        "(* annotations.py _value_of_origin_args: dispatch in source order *)",
        "Definition rt_table : list (form * action) :=\n  [" + ";\n   ".join(f"({f}, {x})" for f, x in r) + "].",
        "",
        "(* annotations._Visitor.visit_Starred present (desugars *X to Unpack[X]) *)",
        f"Definition ast_visit_starred : bool := {'true' if has_starred else 'false'}.",
        "",
    ]
    lines += translate_signatures(repo)
    return "\n".join(lines) + "\n"


if __name__ == "__main__":
    import sys

    print(translate(sys.argv[1] if len(sys.argv) > 1 else "/repo"))
