"""Translator: pyanalyze/signature.py -> coq/theories/Gen/BinderShape.v  (C05, C07).

Two jobs, both fail-closed (anything unexpected raises TranslateError, which
the checks report as a broken obligation):

1. PIN the statement shape of every region of signature.py that the hand
   models Binder/Bind.v and Binder/SigAssign.v mirror line by line:
       Signature.validate, preprocess_args, _preprocess_kwargs_kv_pairs,
       can_assign_var_positional, can_assign_var_keyword
   (Signature.bind_arguments and Signature.can_assign are no longer pinned: their
   initialisation, their five per-kind arms and their final checks / final loop are
   translated, see 2).
   The region's AST is normalised (docstrings dropped; the message arguments
   of show_call_error / on_error / CanAssignError / InvalidSignature and
   `message = ...` assignments replaced by a placeholder, so that wording may
   change freely) and its digest compared with the digest recorded in
   binder_shape.json when the model was written.  An edit of the control or
   data flow of a region changes the digest: the obligation breaks and names
   the first differing source line.  (`python binder.py --update REPO`
   re-records the digests after the model has been brought up to date.)

2. TRANSLATE into Gallina, so that theorems are re-checked against what the
   source says now (a behaviour-preserving refactor re-proves):
     * the five per-kind arms of the loop of bind_arguments, by symbolic
       execution of their statements over the tracked variables
         -> gen_step : actuals -> gstate -> param -> option (gstate * position)
       (obligation Proofs/BinderGen.v: gen_step a (core st) p = step_core a st p),
       together with a check of the initial values of the tracked variables;
     * the four checks after the loop of bind_arguments
         -> gen_finish : actuals -> gstate -> bool
       (obligation: gen_finish a (core st) = Bind.finish_with eka a st);
     * the five per-kind arms of the comparison loop of Signature.can_assign, by
       symbolic execution over the three consumed-sets and the list of type
       obligations (a type test contributes the pair (their parameter, my parameter)
       when its result is recorded, and must be guarded by the isinstance check)
         -> gen_sca_step : sig -> nat -> cstate -> param -> option cstate
       (obligation: gen_sca_step = SigAssign.sca_step);
     * the "takes extra (required) parameter" loop after the comparison loop
       of Signature.can_assign
         -> gen_extra_required_ok : cstate -> param -> bool
       (obligation: gen_extra_required_ok = SigAssign.extra_required_ok).
"""
import ast
import copy
import difflib
import hashlib
import json
import sys
from pathlib import Path

HERE = Path(__file__).resolve().parent
SHAPES = HERE / "binder_shape.json"


class TranslateError(Exception):
    pass


def _fail(node, why):
    raise TranslateError(
        f"signature.py:{getattr(node, 'lineno', '?')}: {why}: "
        + (ast.unparse(node)[:200] if isinstance(node, ast.AST) else str(node))
    )


REGIONS = [
    ("Signature", "validate"),
    (None, "preprocess_args"),
    (None, "_preprocess_kwargs_kv_pairs"),
    (None, "can_assign_var_positional"),
    (None, "can_assign_var_keyword"),
]
MESSAGE_CALLS = {"show_call_error", "on_error", "CanAssignError", "InvalidSignature"}


def find_region(tree, cls, name):
    body = tree.body
    if cls is not None:
        found = [n for n in tree.body if isinstance(n, ast.ClassDef) and n.name == cls]
        if len(found) != 1:
            raise TranslateError(f"signature.py: class {cls} not found exactly once")
        body = found[0].body
    fns = [n for n in body if isinstance(n, ast.FunctionDef) and n.name == name]
    if len(fns) != 1:
        raise TranslateError(f"signature.py: function {cls or ''}.{name} not found exactly once")
    return fns[0]


class _Normalise(ast.NodeTransformer):
    def visit_Call(self, node):
        self.generic_visit(node)
        f = node.func
        fname = f.attr if isinstance(f, ast.Attribute) else f.id if isinstance(f, ast.Name) else None
        if fname in MESSAGE_CALLS:
            node.args = [ast.Constant("MSG") if isinstance(a, (ast.JoinedStr, ast.Constant)) and (isinstance(a, ast.JoinedStr) or isinstance(a.value, str)) else a for a in node.args]
        return node

    def visit_Assign(self, node):
        self.generic_visit(node)
        if len(node.targets) == 1 and isinstance(node.targets[0], ast.Name) and node.targets[0].id in ("message", "extra_kwargs_str", "disallowed_text"):
            node.value = ast.Constant("MSG")
        return node

    def visit_Assert(self, node):
        self.generic_visit(node)
        node.msg = None
        return node


def normalised(fn):
    fn = copy.deepcopy(fn)
    if fn.body and isinstance(fn.body[0], ast.Expr) and isinstance(fn.body[0].value, ast.Constant) and isinstance(fn.body[0].value.value, str):
        fn.body = fn.body[1:]
    fn.returns = None
    fn.decorator_list = []
    for a in fn.args.args + fn.args.kwonlyargs + fn.args.posonlyargs:
        a.annotation = None
    fn = _Normalise().visit(fn)
    ast.fix_missing_locations(fn)
    return ast.unparse(fn)


def digest(text):
    return hashlib.sha256(text.encode()).hexdigest()[:16]


def current_shapes(tree):
    out = {}
    for cls, name in REGIONS:
        text = normalised(find_region(tree, cls, name))
        out[(cls + "." if cls else "") + name] = {"digest": digest(text), "text": text}
    return out


# ---------------------------------------------------------------------------
# expression translators


def _is_name(e, n):
    return isinstance(e, ast.Name) and e.id == n


def _attr(e, obj, attr):
    return isinstance(e, ast.Attribute) and e.attr == attr and _is_name(e.value, obj)


def finish_expr(e):
    """Boolean expressions of the final checks of bind_arguments."""
    if isinstance(e, ast.BoolOp) and isinstance(e.op, ast.And):
        return "(" + " && ".join(finish_expr(v) for v in e.values) + ")"
    if isinstance(e, ast.UnaryOp) and isinstance(e.op, ast.Not):
        return f"(negb {finish_expr(e.operand)})"
    if _is_name(e, "star_args_consumed"):
        return "(g_sac g)"
    if _is_name(e, "star_kwargs_consumed"):
        return "(g_skc g)"
    if _is_name(e, "extra_keywords_allowed"):
        return "(g_eka g)"
    if _attr(e, "actual_args", "star_args"):
        return "(star_args a)"
    if _attr(e, "actual_args", "star_kwargs"):
        return "(star_kwargs a)"
    if _attr(e, "actual_args", "kwargs_required"):
        return "(kwargs_required a)"
    if (
        isinstance(e, ast.Compare)
        and len(e.ops) == 1
        and isinstance(e.ops[0], ast.NotEq)
        and _is_name(e.left, "positional_index")
        and isinstance(e.comparators[0], ast.Call)
        and _is_name(e.comparators[0].func, "len")
        and len(e.comparators[0].args) == 1
        and _attr(e.comparators[0].args[0], "actual_args", "positionals")
    ):
        return "(negb (g_pidx g =? length (positionals a)))"
    _fail(e, "unsupported expression in the final checks of bind_arguments")


def _ends_with_return_none(body):
    last = body[-1]
    return isinstance(last, ast.Return) and (last.value is None or (isinstance(last.value, ast.Constant) and last.value.value is None))


def translate_finish(fn):
    loops = [i for i, st in enumerate(fn.body) if isinstance(st, ast.For)]
    if len(loops) != 1:
        _fail(fn, "bind_arguments: expected exactly one top-level for loop")
    tail = fn.body[loops[0] + 1 :]
    if len(tail) != 6 or not all(isinstance(s, ast.If) for s in tail[:5]) or not isinstance(tail[5], ast.Return):
        _fail(fn, "bind_arguments: expected five `if` statements and a return after the loop")
    if not _is_name(tail[5].value, "bound_args"):
        _fail(tail[5], "bind_arguments must end with `return bound_args`")
    conj = []
    for k, st in enumerate(tail[:4]):
        if st.orelse:
            _fail(st, "final check with an else branch")
        if k == 1:
            # if not extra_keywords_allowed: extra_kwargs = [name for name in keywords if name not in consumed]; if extra_kwargs: ...; return None
            if len(st.body) != 2 or not isinstance(st.body[0], ast.Assign) or not isinstance(st.body[1], ast.If):
                _fail(st, "unexpected shape of the unexpected-keyword check")
            asg, inner = st.body
            want = "[name for name in actual_args.keywords if name not in keywords_consumed]"
            want_old = "set(actual_args.keywords) - keywords_consumed"
            if not (_is_name(asg.targets[0], "extra_kwargs") and ast.unparse(asg.value) in (want, want_old)):
                _fail(asg, "extra_kwargs is not `keywords - keywords_consumed`")
            if not _is_name(inner.test, "extra_kwargs") or inner.orelse or not _ends_with_return_none(inner.body):
                _fail(inner, "unexpected-keyword check does not reject")
            conj.append(f"negb ({finish_expr(st.test)} && negb (is_nil (unconsumed a (g_kc g))))")
        else:
            if not _ends_with_return_none(st.body):
                _fail(st, "final check does not end with `return None`")
            conj.append(f"negb {finish_expr(st.test)}")
    # the fifth check (ParamSpec) reports but does not reject
    if _ends_with_return_none(tail[4].body):
        _fail(tail[4], "the ParamSpec check now rejects (outside the model)")
    return "Definition gen_finish (a : actuals) (g : gstate) : bool :=\n  " + "\n  && ".join(conj) + ".\n"


KIND = {"POSITIONAL_ONLY": "PO", "POSITIONAL_OR_KEYWORD": "POK", "VAR_POSITIONAL": "VP", "KEYWORD_ONLY": "KO", "VAR_KEYWORD": "VK"}
OUTSIDE = {"PARAM_SPEC", "ELLIPSIS"}


def _kind_test(e):
    """param.kind is ParameterKind.X  ->  X  (or None)"""
    if (
        isinstance(e, ast.Compare)
        and len(e.ops) == 1
        and isinstance(e.ops[0], ast.Is)
        and _attr(e.left, "param", "kind")
        and isinstance(e.comparators[0], ast.Attribute)
        and _is_name(e.comparators[0].value, "ParameterKind")
    ):
        return e.comparators[0].attr
    return None


def extra_expr(e):
    """Boolean expressions inside the extra-required loop of can_assign."""
    if isinstance(e, ast.BoolOp):
        op = " && " if isinstance(e.op, ast.And) else " || "
        return "(" + op.join(extra_expr(v) for v in e.values) + ")"
    k = _kind_test(e)
    if k is not None:
        if k not in KIND:
            _fail(e, "kind outside the fragment in a translated position")
        return f"(kind_eqb (pkind q) {KIND[k]})"
    if isinstance(e, ast.Compare) and len(e.ops) == 1 and _attr(e.left, "param", "name") and isinstance(e.comparators[0], ast.Name):
        sets = {"consumed_positional": "cpos", "consumed_keyword": "ckw", "consumed_required_pos_only": "crpo"}
        s = sets.get(e.comparators[0].id)
        if s is None:
            _fail(e, "membership in an unknown set")
        if isinstance(e.ops[0], ast.NotIn):
            return f"(negb (memN (pname q) ({s} st)))"
        if isinstance(e.ops[0], ast.In):
            return f"(memN (pname q) ({s} st))"
    if isinstance(e, ast.Compare) and len(e.ops) == 1 and _attr(e.left, "param", "default") and isinstance(e.comparators[0], ast.Constant) and e.comparators[0].value is None:
        if isinstance(e.ops[0], ast.IsNot):
            return "(pdefault q)"
        if isinstance(e.ops[0], ast.Is):
            return "(negb (pdefault q))"
    _fail(e, "unsupported expression in the extra-required loop of can_assign")


def translate_extra_required(fn):
    tail = [st for st in fn.body if isinstance(st, ast.If) and isinstance(st.test, ast.UnaryOp) and _is_name(st.test.operand, "consumed_paramspec")]
    if len(tail) != 1 or fn.body[-2] is not tail[0]:
        _fail(fn, "can_assign: expected `if not consumed_paramspec:` as the last statement before the return")
    st = tail[0]
    if len(st.body) != 1 or not isinstance(st.body[0], ast.For) or ast.unparse(st.body[0].iter) != "their_params" or not _is_name(st.body[0].target, "param"):
        _fail(st, "can_assign: expected `for param in their_params:`")
    loop = st.body[0]
    if len(loop.body) != 1 or not isinstance(loop.body[0], ast.If):
        _fail(loop, "can_assign: expected one if/elif chain in the extra-required loop")

    def chain(node):
        """if/elif chain -> Gallina bool (true = this parameter is fine)"""
        test = node.test
        k = _kind_test(test)
        outside = k in OUTSIDE
        body = node.body
        if len(body) == 1 and isinstance(body[0], ast.Continue):
            res = "true"
        elif len(body) == 1 and isinstance(body[0], ast.If) and not body[0].orelse and len(body[0].body) == 1 and isinstance(body[0].body[0], ast.Return):
            res = f"(negb {extra_expr(body[0].test)})"
        elif len(body) == 1 and isinstance(body[0], ast.Return):
            res = "false"
        else:
            _fail(node, "unsupported arm of the extra-required chain")
        if len(node.orelse) == 1 and isinstance(node.orelse[0], ast.If):
            rest = chain(node.orelse[0])
        elif len(node.orelse) == 1 and isinstance(node.orelse[0], ast.Assert):
            rest = "true"  # unreachable: assert False
        else:
            _fail(node, "extra-required chain must end with `else: assert False`")
        if outside:
            return rest  # PARAM_SPEC / ELLIPSIS parameters do not exist in the fragment
        return f"(if {extra_expr(test)} then {res}\n   else {rest})"

    return "Definition gen_extra_required_ok (st : cstate) (q : param) : bool :=\n  " + chain(loop.body[0]) + ".\n"



# ---------------------------------------------------------------------------
# symbolic execution of the per-kind arms of the loop of bind_arguments
#
# An arm is executed statement by statement over a symbolic environment
#   pidx kc sac skc eka : Gallina expressions of the tracked variables
#   pos                 : Position bound for the current parameter (or None)
#   locals              : position, definitely_provided, counts of the local
#                         lists `positionals` / dict `items`
# and produces a Gallina term of type option (gstate * position): `if` trees
# whose leaves are `None` (the arm returned None) or `Some (state, position)`.
# Statements that only build Values or messages are skipped; anything else
# that is not understood aborts the translation.

FALSE_TESTS = {
    "positional_index in actual_args.pos_or_keyword_params",
    "param.name in actual_args.pos_or_keyword_params",
    "actual_args.ellipsis",
}
VALUE_LOCALS = {"composite", "value", "message", "star_args_value", "star_kwargs_value", "value_value"}
POSITION_CONSTS = {"ARGS": "Args", "KWARGS": "Kwargs", "DEFAULT": "Default", "UNKNOWN": "Unknown"}
FLAGS = {"star_args_consumed": "sac", "star_kwargs_consumed": "skc", "extra_keywords_allowed": "eka"}
WHILE_TEMPLATE = "while positional_index < len(actual_args.positionals):\n    positionals.append(actual_args.positionals[positional_index][1].value)\n    positional_index += 1"
FOR_TEMPLATE = "for key, (definitely_provided, composite) in actual_args.keywords.items():\n    if key in keywords_consumed:\n        continue\n    items[key] = TypedDictEntry(composite.value, required=definitely_provided)"
NPOS = "(length (positionals a))"


class Env(dict):
    def copy(self):
        return Env(self)


def arm_cond(e, env):
    """-> Gallina bool, or the Python constants True / False when statically known"""
    text = ast.unparse(e)
    if text in FALSE_TESTS:
        return False
    if isinstance(e, ast.BoolOp):
        vals = [arm_cond(v, env) for v in e.values]
        if isinstance(e.op, ast.And):
            if any(v is False for v in vals):
                return False
            vals = [v for v in vals if v is not True]
            return True if not vals else vals[0] if len(vals) == 1 else "(" + " && ".join(vals) + ")"
        if any(v is True for v in vals):
            return True
        vals = [v for v in vals if v is not False]
        return False if not vals else vals[0] if len(vals) == 1 else "(" + " || ".join(vals) + ")"
    if isinstance(e, ast.UnaryOp) and isinstance(e.op, ast.Not):
        if _is_name(e.operand, "positionals"):
            if "vp_count" not in env:
                _fail(e, "`positionals` tested before the collecting loop")
            return f"({env['vp_count']} =? 0)"
        if _is_name(e.operand, "items"):
            if "items" not in env:
                _fail(e, "`items` tested before the collecting loop")
            return f"(is_nil {env['items']})"
        v = arm_cond(e.operand, env)
        return (not v) if isinstance(v, bool) else f"(negb {v})"
    if text == "positional_index < len(actual_args.positionals)":
        return f"({env['pidx']} <? {NPOS})"
    if text == "actual_args.star_args is not None":
        return "(star_args a)"
    if text == "actual_args.star_kwargs is not None":
        return "(star_kwargs a)"
    if text == "param.default is None":
        return "(negb (pdefault p))"
    if text == "param.default is not None":
        return "(pdefault p)"
    if text == "param.name in actual_args.keywords":
        return "(kw_mem a p)"
    if _is_name(e, "definitely_provided"):
        if "dp" not in env:
            _fail(e, "definitely_provided read before it is assigned")
        return env["dp"]
    return ("?", text)  # unknown: acceptable only if both branches turn out equal


def arm_position(e, env):
    if _is_name(e, "position"):
        if "position" not in env:
            _fail(e, "`position` read before it is assigned")
        return env["position"]
    if _is_name(e, "positional_index"):
        return f"(Pos {env['pidx']})"
    if _attr(e, "param", "name"):
        return "(Kw (pname p))"
    if isinstance(e, ast.Name) and e.id in POSITION_CONSTS:
        return POSITION_CONSTS[e.id]
    _fail(e, "unsupported Position expression")


def leaf(env):
    if env.get("pos") is None:
        _fail(None, "an arm finished without binding the parameter")
    return f"Some (mkG {env['pidx']} {env['kc']} {env['sac']} {env['skc']} {env['eka']}, {env['pos']})"


def mk_if(c, t, f):
    if c is True:
        return t
    if c is False:
        return f
    if t == f:
        return t
    if isinstance(c, tuple):
        _fail(None, f"a test the translator does not understand decides the outcome: {c[1]}")
    return f"(if {c} then {t} else {f})"


def merge_position(c, t_env, f_env):
    """join of two environments that differ only in the local `position`"""
    keys = set(t_env) | set(f_env)
    out = Env()
    for k in keys:
        tv, fv = t_env.get(k), f_env.get(k)
        if tv == fv:
            out[k] = tv
        elif k in ("position", "pos", "sac", "skc", "eka", "pidx", "kc", "dp") and tv is not None and fv is not None:
            if c is True:
                out[k] = tv
            elif c is False:
                out[k] = fv
            elif isinstance(c, tuple):
                _fail(None, f"a test the translator does not understand decides a tracked variable: {c[1]}")
            else:
                out[k] = f"(if {c} then {tv} else {fv})"
        else:
            out[k] = None if k == "pos" else tv if fv is None else fv if tv is None else None
            if k not in ("pos",) and tv is not None and fv is not None:
                _fail(None, f"cannot join the branches for `{k}`")
    return out


def returns(stmts):
    """does this statement list contain a `return` (at any depth)?"""
    return any(isinstance(n, ast.Return) for st in stmts for n in ast.walk(st))


def exec_block(stmts, env):
    """Execute statements; returns either ('term', gallina) when every path has
    returned or fallen off the end of the ARM is decided by the caller, or
    ('env', env') when control continues after the block."""
    for k, st in enumerate(stmts):
        rest = stmts[k + 1 :]
        if isinstance(st, ast.Return):
            if st.value is None or (isinstance(st.value, ast.Constant) and st.value.value is None):
                return ("term", "None")
            _fail(st, "unexpected return value inside an arm")
        if isinstance(st, ast.If):
            c = arm_cond(st.test, env)
            if not returns([st]):
                # pure state update on both sides: join and continue
                rt = exec_block(st.body, env.copy())
                rf = exec_block(st.orelse, env.copy()) if st.orelse else ("env", env.copy())
                env = merge_position(c, rt[1], rf[1])
                continue
            # some path returns: the rest of the block is duplicated into both branches
            rt = exec_block(st.body + rest, env.copy())
            rf = exec_block(st.orelse + rest, env.copy())
            if rt[0] == "term" and rf[0] == "term":
                return ("term", mk_if(c, rt[1], rf[1]))
            tt = rt[1] if rt[0] == "term" else leaf(rt[1])
            ff = rf[1] if rf[0] == "term" else leaf(rf[1])
            return ("term", mk_if(c, tt, ff))
        if isinstance(st, ast.While):
            if ast.unparse(st) != WHILE_TEMPLATE:
                _fail(st, "unexpected while loop")
            env["vp_count"] = f"({NPOS} - {env['pidx']})"
            env["pidx"] = f"(Nat.max {env['pidx']} {NPOS})"
            continue
        if isinstance(st, ast.For):
            if ast.unparse(st) != FOR_TEMPLATE:
                _fail(st, "unexpected for loop")
            env["items"] = f"(unconsumed a {env['kc']})"
            continue
        if isinstance(st, ast.AugAssign):
            if _is_name(st.target, "positional_index") and isinstance(st.op, ast.Add) and isinstance(st.value, ast.Constant) and st.value.value == 1:
                env["pidx"] = f"(S {env['pidx']})"
                continue
            _fail(st, "unsupported augmented assignment")
        if isinstance(st, ast.Expr) and isinstance(st.value, ast.Call):
            t = ast.unparse(st.value.func)
            if t == "keywords_consumed.add" and len(st.value.args) == 1 and _attr(st.value.args[0], "param", "name"):
                env["kc"] = f"(pname p :: {env['kc']})"
                continue
            if t == "self.show_call_error":
                continue
            _fail(st, "unsupported call statement")
        if isinstance(st, ast.Assign) and len(st.targets) == 1:
            tg = st.targets[0]
            if isinstance(tg, ast.Name):
                if tg.id in FLAGS:
                    if isinstance(st.value, ast.Constant) and st.value.value is True:
                        env[FLAGS[tg.id]] = "true"
                        continue
                    _fail(st, "a consumed-flag is assigned something other than True")
                if tg.id == "position":
                    env["position"] = arm_position(st.value, env)
                    continue
                if tg.id in VALUE_LOCALS:
                    continue
                if tg.id == "positionals" and ast.unparse(st.value) == "[]":
                    continue
                if tg.id == "items" and ast.unparse(st.value) == "{}":
                    continue
                _fail(st, "assignment to an untracked variable")
            if isinstance(tg, ast.Tuple) and ast.unparse(tg) == "(definitely_provided, composite)":
                v = ast.unparse(st.value)
                if v == "actual_args.positionals[positional_index]":
                    env["dp"] = f"(nth {env['pidx']} (positionals a) true)"
                    continue
                if v == "actual_args.keywords[param.name]":
                    env["dp"] = "(kw_dp a p)"
                    continue
                _fail(st, "unsupported source of definitely_provided")
            if isinstance(tg, ast.Subscript) and ast.unparse(tg) == "bound_args[param.name]":
                if not (isinstance(st.value, ast.Tuple) and len(st.value.elts) == 2):
                    _fail(st, "bound_args entry is not a (position, composite) pair")
                env["pos"] = arm_position(st.value.elts[0], env)
                continue
            _fail(st, "unsupported assignment")
        if isinstance(st, ast.Assert):
            continue
        _fail(st, "unsupported statement in an arm of bind_arguments")
    return ("env", env)


def translate_arms(fn):
    loops = [st for st in fn.body if isinstance(st, ast.For)]
    loop = loops[0]
    if ast.unparse(loop.target) != "param" or ast.unparse(loop.iter) != "self.parameters.values()":
        _fail(loop, "bind_arguments: expected `for param in self.parameters.values():`")
    # the initial values of the tracked variables
    init = {}
    for st in fn.body[: fn.body.index(loop)]:
        if isinstance(st, (ast.Assign, ast.AnnAssign)):
            tg = st.targets[0] if isinstance(st, ast.Assign) else st.target
            if isinstance(tg, ast.Name):
                init[tg.id] = ast.unparse(st.value)
    want = {"positional_index": "0", "keywords_consumed": "set()", "star_args_consumed": "False", "star_kwargs_consumed": "False", "extra_keywords_allowed": "False", "bound_args": "{}"}
    for k, v in want.items():
        if init.get(k) != v:
            raise TranslateError(f"signature.py: bind_arguments initialises {k} to {init.get(k)!r}, the model assumes {v}")
    if len(loop.body) != 1 or not isinstance(loop.body[0], ast.If):
        _fail(loop, "bind_arguments: the loop body must be one if/elif chain on param.kind")
    arms = {}
    node = loop.body[0]
    while True:
        k = _kind_test(node.test)
        if k is None:
            _fail(node.test, "loop arm is not selected by `param.kind is ParameterKind.X`")
        arms[k] = node.body
        if len(node.orelse) == 1 and isinstance(node.orelse[0], ast.If):
            node = node.orelse[0]
        else:
            if not (len(node.orelse) == 1 and isinstance(node.orelse[0], ast.Assert)):
                _fail(node, "the kind dispatch must end with `else: assert False`")
            break
    out = ["Definition gen_step (a : actuals) (g : gstate) (p : param) : option (gstate * position) :=", "  match pkind p with"]
    for k, coq in KIND.items():
        if k not in arms:
            raise TranslateError(f"signature.py: bind_arguments has no arm for {k}")
        env = Env(pidx="(g_pidx g)", kc="(g_kc g)", sac="(g_sac g)", skc="(g_skc g)", eka="(g_eka g)", pos=None)
        r = exec_block(arms[k], env)
        term = r[1] if r[0] == "term" else leaf(r[1])
        out.append(f"  | {coq} =>\n      {term}")
    out.append("  end.\n")
    return "\n".join(out)


# ---------------------------------------------------------------------------
# symbolic execution of the per-kind arms of the comparison loop of Signature.can_assign
#
# state: one Gallina expression `st` of type cstate, wrapped by add_cpos / add_crpo /
# add_ckw / add_obl / opt_obl / push_obls as the statements are executed.  A type test
#     X = <annotation>.can_assign(my_annotation, ctx) | can_assign_var_positional(...) | can_assign_var_keyword(...)
#     if isinstance(X, CanAssignError): return ...
#     tv_maps.append(X) | tv_maps += X
# contributes the obligation (their parameter, my parameter) when the result is recorded;
# the translator insists that the isinstance-check stands between the two.

CA_KIND_TUPLE = {
    "(ParameterKind.POSITIONAL_ONLY, ParameterKind.POSITIONAL_OR_KEYWORD)": "[PO; POK]",
    "(ParameterKind.POSITIONAL_OR_KEYWORD, ParameterKind.KEYWORD_ONLY)": "[POK; KO]",
    "(ParameterKind.KEYWORD_ONLY, ParameterKind.POSITIONAL_OR_KEYWORD)": "[KO; POK]",
}
EXTRA_POS = "[param for param in their_params if param.name not in consumed_positional and param.kind in (ParameterKind.POSITIONAL_ONLY, ParameterKind.POSITIONAL_OR_KEYWORD)]"
EXTRA_KW = "[param for param in their_params if param.name not in consumed_keyword and param.kind in (ParameterKind.KEYWORD_ONLY, ParameterKind.POSITIONAL_OR_KEYWORD) and (param.name not in consumed_required_pos_only)]"


def ca_param(e):
    """expression denoting one of THEIR parameters -> Gallina param"""
    t = ast.unparse(e)
    if t == "their_params[i]":
        return "(their a i)"
    if t == "their_param":
        return "(named a m)"
    _fail(e, "unknown parameter expression in can_assign")


def ca_cond(e):
    t = ast.unparse(e)
    if isinstance(e, ast.BoolOp):
        op = " && " if isinstance(e.op, ast.And) else " || "
        return "(" + op.join(ca_cond(v) for v in e.values) + ")"
    if isinstance(e, ast.UnaryOp) and isinstance(e.op, ast.Not):
        return f"(negb {ca_cond(e.operand)})"
    if t == "i < len(their_params)":
        return "(has_their a i)"
    if t == "their_param is not None":
        return "(has_named a m)"
    if t == "args_annotation is not None":
        return "(hasvp a)"
    if t == "kwargs_annotation is not None":
        return "(hasvk a)"
    if t == "args_annotation is None":
        return "(negb (hasvp a))"
    if t == "kwargs_annotation is None":
        return "(negb (hasvk a))"
    if t == "my_param.default is not None":
        return "(pdefault m)"
    if isinstance(e, ast.Compare) and len(e.ops) == 1:
        l, r = e.left, e.comparators[0]
        if isinstance(l, ast.Attribute) and l.attr == "kind":
            q = ca_param(l.value)
            if isinstance(e.ops[0], ast.In) and ast.unparse(r) in CA_KIND_TUPLE:
                return f"(kind_in (pkind {q}) {CA_KIND_TUPLE[ast.unparse(r)]})"
            if isinstance(e.ops[0], ast.Is) and isinstance(r, ast.Attribute) and _is_name(r.value, "ParameterKind") and r.attr in KIND:
                return f"(kind_eqb (pkind {q}) {KIND[r.attr]})"
        if isinstance(l, ast.Attribute) and l.attr == "default" and isinstance(r, ast.Constant) and r.value is None and not _is_name(l.value, "my_param"):
            q = ca_param(l.value)
            return f"(negb (pdefault {q}))" if isinstance(e.ops[0], ast.Is) else f"(pdefault {q})"
        if isinstance(e.ops[0], ast.NotEq) and ast.unparse(l) == "my_param.name" and isinstance(r, ast.Attribute) and r.attr == "name":
            return f"(negb (N.eqb (pname m) (pname {ca_param(r.value)})))"
    _fail(e, "unsupported test in an arm of can_assign")


def is_obligation_check(st):
    """if isinstance(X, CanAssignError): return ...   -> X"""
    if isinstance(st, ast.If) and not st.orelse and isinstance(st.test, ast.Call) and _is_name(st.test.func, "isinstance"):
        a = st.test.args
        if len(a) == 2 and isinstance(a[0], ast.Name) and _is_name(a[1], "CanAssignError") and len(st.body) == 1 and isinstance(st.body[0], ast.Return):
            return a[0].id
    return None


def ca_obligation_source(value, env):
    """right-hand side of `X = ...` for a type test -> function wrapping the state expression"""
    t = ast.unparse(value)
    if t == "their_annotation.can_assign(my_annotation, ctx)":
        if "their_annotation" not in env:
            _fail(value, "their_annotation used before it is assigned")
        q = env["their_annotation"]
        return lambda st: f"(add_obl (pname {q}) (pname m) {st})"
    if t == "args_annotation.can_assign(my_annotation, ctx)":
        return lambda st: f"(opt_obl (param_of_kind VP a) (pname m) {st})"
    if t == "kwargs_annotation.can_assign(my_annotation, ctx)":
        return lambda st: f"(opt_obl (param_of_kind VK a) (pname m) {st})"
    if t == "can_assign_var_positional(my_param, args_annotation, i - their_args_index, ctx)":
        return lambda st: f"(opt_obl (param_of_kind VP a) (pname m) {st})"
    if t == "can_assign_var_keyword(my_param, kwargs_annotation, ctx)":
        return lambda st: f"(opt_obl (param_of_kind VK a) (pname m) {st})"
    return None


def ca_exec(stmts, env):
    """-> Gallina term of type option cstate"""
    for k, st in enumerate(stmts):
        rest = stmts[k + 1 :]
        if isinstance(st, ast.Return):
            if isinstance(st.value, ast.Call) and _is_name(st.value.func, "CanAssignError"):
                return "None"
            _fail(st, "unexpected return in an arm of can_assign")
        x = is_obligation_check(st)
        if x is not None:
            if env.get("pending", {}).get(x) is None:
                _fail(st, f"isinstance check of `{x}` without a preceding type test")
            env["checked"] = env.get("checked", set()) | {x}
            continue
        if isinstance(st, ast.If):
            c = ca_cond(st.test)
            e1, e2 = dict(env), dict(env)
            t = ca_exec(st.body + rest, e1)
            f = ca_exec(st.orelse + rest, e2)
            return t if t == f else f"(if {c} then {t} else {f})"
        if isinstance(st, ast.Assign) and len(st.targets) == 1 and isinstance(st.targets[0], ast.Name):
            name, v = st.targets[0].id, st.value
            if name == "their_annotation" and isinstance(v, ast.Call) and isinstance(v.func, ast.Attribute) and v.func.attr == "get_annotation":
                env["their_annotation"] = ca_param(v.func.value)
                continue
            if name == "their_param" and ast.unparse(v) == "other.parameters.get(my_param.name)":
                continue
            src = ca_obligation_source(v, env)
            if src is not None and name in ("tv_map", "new_tv_maps"):
                env["pending"] = {**env.get("pending", {}), name: src}
                env["checked"] = env.get("checked", set()) - {name}
                continue
            if name == "extra_positional" and ast.unparse(v) == EXTRA_POS:
                env["extra"] = f"(filter (fun q => negb (memN (pname q) (cpos {env['st']})) && is_positional (pkind q)) a)"
                continue
            if name == "extra_keyword" and ast.unparse(v) == EXTRA_KW:
                env["extra"] = f"(filter (fun q => negb (memN (pname q) (ckw {env['st']})) && is_kw_target (pkind q) && negb (memN (pname q) (crpo {env['st']}))) a)"
                continue
            _fail(st, "unsupported assignment in an arm of can_assign")
        if isinstance(st, ast.For) and ast.unparse(st.target) == "extra_param" and ast.unparse(st.iter) in ("extra_positional", "extra_keyword"):
            body = [ast.unparse(b) for b in st.body]
            if not (len(st.body) == 3 and body[0] == "tv_map = extra_param.get_annotation().can_assign(my_annotation, ctx)" and is_obligation_check(st.body[1]) == "tv_map" and body[2] == "tv_maps.append(tv_map)") or "extra" not in env:
                _fail(st, "unexpected loop over the extra parameters")
            env["st"] = f"(push_obls (map (fun q => (pname q, pname m)) {env.pop('extra')}) {env['st']})"
            continue
        if isinstance(st, ast.AugAssign) and _is_name(st.target, "tv_maps") and isinstance(st.value, ast.Name):
            x = st.value.id
            if x not in env.get("checked", set()):
                _fail(st, f"`{x}` recorded without the isinstance check")
            env["st"] = env["pending"][x](env["st"])
            continue
        if isinstance(st, ast.Expr) and isinstance(st.value, ast.Call):
            f = ast.unparse(st.value.func)
            args = st.value.args
            if f == "tv_maps.append" and len(args) == 1 and isinstance(args[0], ast.Name):
                x = args[0].id
                if x not in env.get("checked", set()):
                    _fail(st, f"`{x}` recorded without the isinstance check")
                env["st"] = env["pending"][x](env["st"])
                continue
            sets = {"consumed_positional.add": "add_cpos", "consumed_required_pos_only.add": "add_crpo", "consumed_keyword.add": "add_ckw"}
            if f in sets and len(args) == 1 and isinstance(args[0], ast.Attribute) and args[0].attr == "name":
                env["st"] = f"({sets[f]} (pname {ca_param(args[0].value)}) {env['st']})"
                continue
            _fail(st, "unsupported call statement in an arm of can_assign")
        _fail(st, "unsupported statement in an arm of can_assign")
    return f"Some {env['st']}"


def translate_ca_arms(fn):
    loops = [st for st in fn.body if isinstance(st, ast.For) and ast.unparse(st.iter) == "enumerate(self.parameters.values())"]
    if len(loops) != 1 or ast.unparse(loops[0].target) != "(i, my_param)":
        _fail(fn, "can_assign: expected `for i, my_param in enumerate(self.parameters.values()):`")
    loop = loops[0]
    # the values the arms rely on
    pre = {ast.unparse(st) for st in fn.body[: fn.body.index(loop)]}
    for want in (
        "their_params = list(other.parameters.values())",
        "their_args = other.get_param_of_kind(ParameterKind.VAR_POSITIONAL)",
        "their_kwargs = other.get_param_of_kind(ParameterKind.VAR_KEYWORD)",
        "consumed_positional = set()",
        "consumed_required_pos_only = set()",
        "consumed_keyword = set()",
        "return_tv_map = my_return.can_assign(their_return, ctx)",
    ):
        if want not in pre:
            raise TranslateError(f"signature.py: can_assign no longer contains `{want}` before the comparison loop")
    body = loop.body
    if not (len(body) == 2 and ast.unparse(body[0]) == "my_annotation = my_param.get_annotation()" and isinstance(body[1], ast.If)):
        _fail(loop, "can_assign: unexpected body of the comparison loop")
    arms = {}
    node = body[1]
    while True:
        t = node.test
        k = None
        if isinstance(t, ast.Compare) and len(t.ops) == 1 and isinstance(t.ops[0], ast.Is) and ast.unparse(t.left) == "my_param.kind" and isinstance(t.comparators[0], ast.Attribute):
            k = t.comparators[0].attr
        if k is None:
            _fail(t, "comparison arm is not selected by `my_param.kind is ParameterKind.X`")
        arms[k] = node.body
        if len(node.orelse) == 1 and isinstance(node.orelse[0], ast.If):
            node = node.orelse[0]
        else:
            break
    out = ["Definition gen_sca_step (a : sig) (i : nat) (st : cstate) (m : param) : option cstate :=", "  match pkind m with"]
    for k, coq in KIND.items():
        if k not in arms:
            raise TranslateError(f"signature.py: can_assign has no arm for {k}")
        out.append(f"  | {coq} =>\n      {ca_exec(arms[k], {'st': 'st'})}")
    out.append("  end.\n")
    return "\n".join(out)

# ---------------------------------------------------------------------------


def translate(repo: str) -> str:
    src = (Path(repo) / "pyanalyze" / "signature.py").read_text()
    tree = ast.parse(src)
    shapes = current_shapes(tree)
    if not SHAPES.exists():
        raise TranslateError("harness/translate/binder_shape.json is missing")
    recorded = json.loads(SHAPES.read_text())
    for name, cur in shapes.items():
        rec = recorded.get(name)
        if rec is None:
            raise TranslateError(f"no recorded shape for {name}")
        if rec["digest"] != cur["digest"]:
            diff = [l for l in difflib.unified_diff(rec["text"].splitlines(), cur["text"].splitlines(), "modelled", "current", lineterm="", n=1)]
            raise TranslateError(f"signature.py: the statement shape of {name} changed since the model was written:\n" + "\n".join(diff[:30]))
    bind = find_region(tree, "Signature", "bind_arguments")
    ca = find_region(tree, "Signature", "can_assign")
    lines = [
        "(* GENERATED by harness/translate/binder.py from pyanalyze/signature.py — do not edit. *)",
        "From Coq Require Import List Bool NArith PeanoNat.",
        "Import ListNotations.",
        "Require Import PV.Binder.Kind PV.Binder.Sig PV.Binder.Bind PV.Binder.BindCore PV.Binder.SigAssign PV.Binder.SigAssignCore.",
        "",
        "(* digests of the pinned regions (statement shape as modelled) *)",
    ]
    for name, cur in shapes.items():
        lines.append(f"(* {name}: {cur['digest']} *)")
    lines += ["", "(* the five per-kind arms of the loop of Signature.bind_arguments (symbolic execution) *)", translate_arms(bind)]
    lines += ["(* the four rejecting checks after the loop of Signature.bind_arguments *)", translate_finish(bind)]
    lines += ["(* the five per-kind arms of the comparison loop of Signature.can_assign (symbolic execution) *)", translate_ca_arms(ca)]
    lines += ["(* the loop over their parameters after the comparison loop of Signature.can_assign *)", translate_extra_required(ca)]
    return "\n".join(lines)


if __name__ == "__main__":
    if len(sys.argv) > 2 and sys.argv[1] == "--update":
        tree = ast.parse((Path(sys.argv[2]) / "pyanalyze" / "signature.py").read_text())
        SHAPES.write_text(json.dumps(current_shapes(tree), indent=1, sort_keys=True) + "\n")
        print("recorded", len(REGIONS), "region shapes")
    else:
        print(translate(sys.argv[1] if len(sys.argv) > 1 else "/repo"))
