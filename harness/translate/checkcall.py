"""Translator: structural facts of Signature.check_call_with_bound_args and
_check_param_type_compatibility (pyanalyze/signature.py) -> coq/theories/Gen/CheckCall.v  (C06).

The hand-written model Call/Model.v mirrors the two passes of check_call_with_bound_args.  Instead of
pinning the text of that function, the facts the model depends on are extracted from its AST, so that a
behaviour-preserving edit (renamed locals, reordered independent statements, added bookkeeping) leaves
the generated file unchanged, while a change of the control structure flips a fact and breaks the
obligation `check_call_structure_ok = true` (Properties/C06.v).  Fail closed: a function or a loop that
cannot be located raises TranslateError.
"""
import ast
import sys
from pathlib import Path


class TranslateError(Exception):
    pass


def _find_class(mod, name):
    for n in mod.body:
        if isinstance(n, ast.ClassDef) and n.name == name:
            return n
    raise TranslateError(f"class {name} not found")


def _find_fn(container, name):
    for n in container.body:
        if isinstance(n, ast.FunctionDef) and n.name == name:
            return n
    raise TranslateError(f"function {name} not found")


def _is_self_attr(e, attr):
    return isinstance(e, ast.Attribute) and isinstance(e.value, ast.Name) and e.value.id == "self" and e.attr == attr


def _calls(node, attr):
    return [c for c in ast.walk(node) if isinstance(c, ast.Call) and isinstance(c.func, ast.Attribute) and c.func.attr == attr]


def _returns_default(stmts):
    for s in stmts:
        for r in ast.walk(s):
            if isinstance(r, ast.Return) and isinstance(r.value, ast.Call) and isinstance(r.value.func, ast.Attribute) and r.value.func.attr == "get_default_return":
                return True
    return False


def _is_none_test(t, name=None):
    return (
        isinstance(t, ast.Compare) and len(t.ops) == 1 and isinstance(t.ops[0], ast.Is)
        and isinstance(t.comparators[0], ast.Constant) and t.comparators[0].value is None
        and isinstance(t.left, ast.Name) and (name is None or t.left.id == name)
    )


def facts(repo="/repo"):
    mod = ast.parse(Path(repo, "pyanalyze/signature.py").read_text())
    sig = _find_class(mod, "Signature")
    fn = _find_fn(sig, "check_call_with_bound_args")
    compat = _find_fn(sig, "_check_param_type_compatibility")
    loops = [n for n in ast.walk(fn) if isinstance(n, ast.For)]
    loop1 = [l for l in loops if _is_self_attr(l.iter, "typevars_of_params")]
    loop2 = [l for l in loops if isinstance(l.iter, ast.Call) and isinstance(l.iter.func, ast.Attribute) and l.iter.func.attr == "items"
             and isinstance(l.iter.func.value, ast.Name) and l.iter.func.value.id == "bound_args"
             and _calls(l, "_check_param_type_compatibility")]
    if len(loop1) != 1 or len(loop2) != 1:
        raise TranslateError("check_call_with_bound_args: expected one loop over self.typevars_of_params and one over bound_args.items()")
    loop1, loop2 = loop1[0], loop2[0]
    f = {}
    # the typevar pass is guarded by `if self.all_typevars` and precedes the per-argument pass
    guard = [n for n in ast.walk(fn) if isinstance(n, ast.If) and _is_self_attr(n.test, "all_typevars") and any(x is loop1 for x in ast.walk(n))]
    f["typevar_pass_guarded_and_first"] = bool(guard) and loop1.lineno < loop2.lineno and not any(x is loop2 for g in guard for x in ast.walk(g))
    # it skips the return key
    f["typevar_pass_skips_return_key"] = any(
        isinstance(n, ast.If) and isinstance(n.test, ast.Compare) and len(n.test.ops) == 1 and isinstance(n.test.ops[0], ast.Eq)
        and _is_self_attr(n.test.comparators[0], "_return_key") and any(isinstance(b, ast.Continue) for b in n.body)
        for n in ast.walk(loop1)
    )
    # it checks each such parameter WITHOUT a typevar map
    c1 = _calls(loop1, "_check_param_type_compatibility")
    f["typevar_pass_unsubstituted"] = len(c1) == 1 and len(c1[0].args) == 3 and not c1[0].keywords
    # a rejected argument returns the default return at once
    f["typevar_pass_failure_returns_default"] = any(
        isinstance(n, ast.If) and _is_none_test(n.test) and _returns_default(n.body) for n in ast.walk(loop1)
    )
    # the bounds maps are unified and resolved; errors => default return
    rs = [c for c in ast.walk(fn) if isinstance(c, ast.Call) and isinstance(c.func, ast.Name) and c.func.id == "resolve_bounds_map"]
    f["bounds_unified_then_resolved"] = (
        len(rs) == 1 and rs[0].args and isinstance(rs[0].args[0], ast.Call) and isinstance(rs[0].args[0].func, ast.Name)
        and rs[0].args[0].func.id == "unify_bounds_maps"
        and any(k.arg == "all_typevars" for k in rs[0].keywords)
    )
    f["unsolvable_returns_default"] = any(
        isinstance(n, ast.If) and isinstance(n.test, ast.Name) and n.test.id == "errors" and _returns_default(n.body)
        and any(isinstance(c, ast.Call) and isinstance(c.func, ast.Attribute) and c.func.attr == "show_call_error" for b in n.body for c in ast.walk(b))
        for n in ast.walk(fn)
    )
    # ... and that test directly follows the resolution, in the same block (not nested under a
    # condition on the return annotation: round-2 seeded change)
    def block_has_both(stmts):
        has_res = any(isinstance(x, ast.Assign) and any(c is rs[0] for c in ast.walk(x)) for x in stmts) if rs else False
        has_err = any(isinstance(x, ast.If) and isinstance(x.test, ast.Name) and x.test.id == "errors" and _returns_default(x.body) for x in stmts)
        return has_res and has_err
    f["unsolvable_test_unconditional"] = any(
        block_has_both(getattr(n, fld)) for n in ast.walk(fn) for fld in ("body", "orelse") if isinstance(getattr(n, fld, None), list)
    )
    # the per-argument pass covers every bound argument, WITH the typevar values, and never returns early
    c2 = _calls(loop2, "_check_param_type_compatibility")
    f["argument_pass_substituted"] = len(c2) == 1 and (
        (len(c2[0].args) >= 4 and isinstance(c2[0].args[3], ast.Name) and c2[0].args[3].id == "typevar_values")
        or any(k.arg == "typevar_map" and isinstance(k.value, ast.Name) and k.value.id == "typevar_values" for k in c2[0].keywords)
    )
    f["argument_pass_no_early_return"] = not any(isinstance(n, (ast.Return, ast.Break)) for n in ast.walk(loop2))
    f["argument_failure_sets_had_error"] = any(
        isinstance(n, ast.If) and _is_none_test(n.test)
        and any(isinstance(b, ast.Assign) and isinstance(b.targets[0], ast.Name) and b.targets[0].id == "had_error"
                and isinstance(b.value, ast.Constant) and b.value.value is True for b in n.body)
        for n in ast.walk(loop2)
    )
    # the return annotation is substituted only after a successful resolution
    f["return_substituted"] = any(
        isinstance(n, ast.Assign) and isinstance(n.targets[0], ast.Name) and n.targets[0].id == "return_value"
        and isinstance(n.value, ast.Call) and isinstance(n.value.func, ast.Attribute) and n.value.func.attr == "substitute_typevars"
        for n in ast.walk(fn)
    )
    # _check_param_type_compatibility: the default is exempt by IDENTITY; the annotation is substituted
    dcmp = [n for n in ast.walk(compat) if isinstance(n, ast.Compare) and len(n.ops) == 1
            and isinstance(n.comparators[0], ast.Attribute) and n.comparators[0].attr == "default"
            and isinstance(n.left, ast.Attribute) and n.left.attr == "value"]
    f["default_exempt_by_identity"] = bool(dcmp) and all(isinstance(n.ops[0], ast.Is) for n in dcmp)
    f["annotation_substituted_when_map"] = any(
        isinstance(n, ast.If) and isinstance(n.test, ast.Name) and n.test.id == "typevar_map"
        and any(isinstance(c, ast.Call) and isinstance(c.func, ast.Attribute) and c.func.attr == "substitute_typevars" for b in n.body for c in ast.walk(b))
        for n in ast.walk(compat)
    )
    f["unannotated_parameter_accepts"] = any(
        isinstance(n, ast.If) and isinstance(n.test, ast.Compare) and isinstance(n.test.ops[0], ast.NotEq)
        and isinstance(n.test.comparators[0], ast.Name) and n.test.comparators[0].id == "UNANNOTATED"
        for n in ast.walk(compat)
    )
    # annotations.py: a bare name inside a string / postponed annotation of a runtime function is looked up in
    # the function's module globals BEFORE the builtins (Python's own order; round-4 seeded change)
    amod = ast.parse(Path(repo, "pyanalyze/annotations.py").read_text())
    gn = _find_fn(_find_class(amod, "Context"), "get_name_from_globals")
    first_if = next((n for n in gn.body if isinstance(n, ast.If)), None)
    f["annotation_names_globals_before_builtins"] = bool(
        first_if is not None and isinstance(first_if.test, ast.Compare) and len(first_if.test.ops) == 1
        and isinstance(first_if.test.ops[0], ast.In) and isinstance(first_if.test.comparators[0], ast.Name)
        and first_if.test.comparators[0].id == "globals"
    )
    return f


def translate(repo="/repo"):
    f = facts(repo)
    b = lambda x: "true" if x else "false"
    defs = "\n".join(f"Definition cc_{k} : bool := {b(v)}." for k, v in f.items())
    conj = " && ".join("cc_" + k for k in f)
    return f"""(* GENERATED by harness/translate/checkcall.py from pyanalyze/signature.py — do not edit.
   Structural facts of Signature.check_call_with_bound_args / _check_param_type_compatibility that
   Call/Model.v (pass1, resolve_ok, pass2, BDefault, default_ret) mirrors, extracted from the AST. *)
From Coq Require Import Bool.

{defs}

Definition check_call_structure_ok : bool :=
  {conj}.
"""


if __name__ == "__main__":
    sys.stdout.write(translate(sys.argv[1] if len(sys.argv) > 1 else "/repo"))
