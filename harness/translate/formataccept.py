"""Translator: ConversionSpecifier.accept_no_mvv, ConversionSpecifier.lint and
StarConversionSpecifier.accept of pyanalyze/format_strings.py
   -> coq/theories/Gen/FormatAccept.v            (C17)

Fail-closed `ast` walker.  The functions are if/elif chains over the conversion
type, `self.is_bytes`, assignability tests on the argument Value and a few
tests on the wrapped object of a KnownValue; each branch yields error messages.
They are translated statement by statement into Gallina functions over
Percent.argview (what the code can observe of an argument) returning the list
of error kinds (message -> constructor by its constant text).  Anything outside
the expected shapes raises TranslateError, which the check reports as a broken
obligation.  Proofs/FormatGen.v proves the generated functions equal to the
hand-written model on every run.
"""
import ast
from pathlib import Path


class TranslateError(Exception):
    pass


def _fail(node, why):
    raise TranslateError(f"format_strings.py:{getattr(node, 'lineno', '?')}: {why}: {ast.dump(node)[:160]}")


SET_NAMES = {"_INTEGER_CONVERSION_TYPES": "integer_conversion_types", "_NUMERIC_CONVERSION_TYPES": "numeric_conversion_types"}
ASSIGNABLE_NAMES = {"Integral": "av_integral v", "Numeric": "av_numeric v"}
ASSIGNABLE_TYPES = {"int": "av_int v", "bytes": "av_bytes v", "str": "av_str v"}

# constant text of a message (formatted pieces replaced by {}) -> constructor
ACCEPT_MESSAGES = [
    ("%{} conversion specifier accepts integers, not {}", "EInteger"),
    ("%{} conversion specifier accepts numbers, not {}", "ENumeric"),
    ("%c requires an integer in range(256), not {}", "ECRange"),
    ("%c requires a single character, not {}", "ECLen"),
    ("%c requires an integer or character, not {}", "ECType"),
    ("%{} accepts only bytes, not {}", "EBytesOnly"),
    ("%% does not accept arguments", "EPct"),
    ("'*' special specifier only accepts ints, not {}", "EStar"),
]
LINT_MESSAGES = [
    ("using % combined with optional specifiers does not make sense", "LPctOptions"),
    ("the %b conversion specifier works only on Python 3 bytes patterns", "LBOnText"),
]


def _message(node):
    if isinstance(node, ast.Constant) and isinstance(node.value, str):
        return node.value
    if isinstance(node, ast.JoinedStr):
        out = ""
        for v in node.values:
            if isinstance(v, ast.Constant):
                out += v.value
            elif isinstance(v, ast.FormattedValue):
                out += "{}"
            else:
                _fail(v, "unexpected f-string piece")
        return out
    _fail(node, "yield of a non-string")


def _is_self_attr(e, name):
    return isinstance(e, ast.Attribute) and isinstance(e.value, ast.Name) and e.value.id == "self" and e.attr == name


def _char(e):
    if isinstance(e, ast.Constant) and isinstance(e.value, str) and len(e.value) == 1:
        return ord(e.value)
    _fail(e, "expected a 1-character string")


def expr(e):
    """boolean expression -> Gallina text"""
    if isinstance(e, ast.BoolOp):
        op = " && " if isinstance(e.op, ast.And) else " || "
        return "(" + op.join(expr(v) for v in e.values) + ")"
    if isinstance(e, ast.UnaryOp) and isinstance(e.op, ast.Not):
        return f"(negb {expr(e.operand)})"
    if _is_self_attr(e, "is_bytes"):
        return "is_bytes"
    if isinstance(e, ast.Constant) and isinstance(e.value, bool):
        return "true" if e.value else "false"
    if isinstance(e, ast.Compare) and len(e.ops) == 1:
        op, left, right = e.ops[0], e.left, e.comparators[0]
        if _is_self_attr(left, "conversion_type"):
            if isinstance(op, ast.In):
                if isinstance(right, ast.Name) and right.id in SET_NAMES:
                    return f"(mem t {SET_NAMES[right.id]})"
                if isinstance(right, ast.Tuple):
                    return "(mem t [" + "; ".join(str(_char(x)) for x in right.elts) + "])"
                _fail(e, "unsupported membership test")
            if isinstance(op, ast.Eq):
                return f"(t =? {_char(right)})"
            _fail(e, "unsupported comparison of the conversion type")
        # arg.val not in range(N)
        if (
            isinstance(op, ast.NotIn)
            and isinstance(left, ast.Attribute) and isinstance(left.value, ast.Name) and left.value.id == "arg" and left.attr == "val"
            and isinstance(right, ast.Call) and isinstance(right.func, ast.Name) and right.func.id == "range"
            and len(right.args) == 1 and isinstance(right.args[0], ast.Constant) and isinstance(right.args[0].value, int)
        ):
            return f"(negb ((0 <=? av_val v)%Z && (av_val v <? {right.args[0].value})%Z))"
        # len(arg.val) != 1
        if (
            isinstance(op, ast.NotEq)
            and isinstance(left, ast.Call) and isinstance(left.func, ast.Name) and left.func.id == "len"
            and isinstance(right, ast.Constant) and isinstance(right.value, int)
        ):
            return f"(negb (Nat.eqb (av_len v) {right.value}))"
        # any(f is not None for f in (self.mapping_key, ...)) is handled in stmt-level for lint
        _fail(e, "unsupported comparison")
    if isinstance(e, ast.Call):
        f = e.func
        # X.is_assignable(arg, ctx)
        if isinstance(f, ast.Attribute) and f.attr == "is_assignable" and len(e.args) == 2:
            tgt = f.value
            if isinstance(tgt, ast.Name) and tgt.id in ASSIGNABLE_NAMES:
                return f"({ASSIGNABLE_NAMES[tgt.id]})"
            if (
                isinstance(tgt, ast.Call) and isinstance(tgt.func, ast.Name) and tgt.func.id == "TypedValue"
                and len(tgt.args) == 1 and isinstance(tgt.args[0], ast.Name) and tgt.args[0].id in ASSIGNABLE_TYPES
            ):
                return f"({ASSIGNABLE_TYPES[tgt.args[0].id]})"
            _fail(e, "unsupported assignability test")
        if isinstance(f, ast.Name) and f.id == "isinstance" and len(e.args) == 2:
            a, b = e.args
            if isinstance(a, ast.Name) and a.id == "arg" and isinstance(b, ast.Name) and b.id == "KnownValue":
                return "(av_known v)"
            if (
                isinstance(a, ast.Attribute) and isinstance(a.value, ast.Name) and a.value.id == "arg" and a.attr == "val"
                and isinstance(b, ast.Tuple) and sorted(getattr(x, "id", "?") for x in b.elts) == ["bytes", "str"]
            ):
                return "(av_strbytes v)"
            _fail(e, "unsupported isinstance")
        # any(f is not None for f in (self.a, self.b, ...))  -> has_options
        if isinstance(f, ast.Name) and f.id == "any" and len(e.args) == 1 and isinstance(e.args[0], ast.GeneratorExp):
            g = e.args[0]
            names = sorted(getattr(x, "attr", "?") for x in g.generators[0].iter.elts) if isinstance(g.generators[0].iter, ast.Tuple) else None
            if (
                names == ["conversion_flags", "field_width", "length_modifier", "mapping_key", "precision"]
                and isinstance(g.elt, ast.Compare) and isinstance(g.elt.ops[0], ast.IsNot)
                and isinstance(g.elt.comparators[0], ast.Constant) and g.elt.comparators[0].value is None
            ):
                return "(has_options cs)"
            _fail(e, "unsupported any()")
    _fail(e, "unsupported expression")


def stmts(body, messages):
    """statement list -> Gallina term of type list <err>"""
    parts = []
    for st in body:
        if isinstance(st, ast.Pass):
            continue
        if isinstance(st, ast.Expr) and isinstance(st.value, ast.Constant) and isinstance(st.value.value, str):
            continue  # docstring
        if isinstance(st, ast.Expr) and isinstance(st.value, ast.Yield):
            msg = _message(st.value.value)
            for text, ctor in messages:
                if msg == text:
                    parts.append(f"[{ctor}]")
                    break
            else:
                _fail(st, f"unknown message {msg!r}")
            continue
        if isinstance(st, ast.If):
            parts.append(f"(if {expr(st.test)} then {stmts(st.body, messages)} else {stmts(st.orelse, messages)})")
            continue
        if isinstance(st, ast.Assert) and isinstance(st.test, ast.Constant) and st.test.value is False:
            parts.append("[EUnhandled]")
            continue
        _fail(st, "unsupported statement")
    if not parts:
        return "[]"
    return parts[0] if len(parts) == 1 else "(" + " ++ ".join(parts) + ")"


def translate(repo: str) -> str:
    src = (Path(repo) / "pyanalyze" / "format_strings.py").read_text()
    tree = ast.parse(src)
    fns = {}
    for node in tree.body:
        if isinstance(node, ast.ClassDef) and node.name in ("ConversionSpecifier", "StarConversionSpecifier"):
            for fn in node.body:
                if isinstance(fn, ast.FunctionDef):
                    fns[(node.name, fn.name)] = fn
    for need in [("ConversionSpecifier", "accept_no_mvv"), ("ConversionSpecifier", "lint"), ("StarConversionSpecifier", "accept")]:
        if need not in fns:
            raise TranslateError(f"format_strings.py: {need[0]}.{need[1]} not found")
    accept = stmts(fns[("ConversionSpecifier", "accept_no_mvv")].body, ACCEPT_MESSAGES)
    star = stmts(fns[("StarConversionSpecifier", "accept")].body, ACCEPT_MESSAGES)
    lint = stmts(fns[("ConversionSpecifier", "lint")].body, LINT_MESSAGES)
    out = [
        "(* GENERATED by harness/translate/formataccept.py from pyanalyze/format_strings.py — do not edit *)",
        "From Coq Require Import ZArith NArith List Bool.",
        "Import ListNotations.",
        "Require Import PV.Gen.FormatRe PV.Format.Percent.",
        "Open Scope N_scope.",
        "(* ConversionSpecifier.accept_no_mvv *)",
        "Definition gen_accept (is_bytes : bool) (t : N) (v : argview) : list acc_err :=",
        "  " + accept + ".",
        "(* StarConversionSpecifier.accept *)",
        "Definition gen_star_accept (v : argview) : list acc_err :=",
        "  " + star + ".",
        "(* ConversionSpecifier.lint *)",
        "Definition gen_spec_lint (is_bytes : bool) (cs : cspec) : list lint_err :=",
        "  let t := c_type cs in",
        "  " + lint + ".",
        "",
    ]
    return "\n".join(out)


if __name__ == "__main__":
    import sys

    print(translate(sys.argv[1] if len(sys.argv) > 1 else "/repo"))
