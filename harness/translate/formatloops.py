"""Translator: the loops of the %-format checker and of _str_format_impl
   -> coq/theories/Gen/FormatLoops.v                                    (C17)

  PercentFormatString.needs_mapping          -> gen_needs_mapping
  PercentFormatString.get_serial_specifiers  -> gen_serial_of / gen_serial_specifiers
  PercentFormatString.lint                   -> gen_lint_of / gen_pa_lint
  PercentFormatString.accept_tuple_args_no_mvv (from `specifiers = list(...)` on:
      the arity tests and the zip loop)      -> gen_accept_tail
  implementation._str_format_impl (the loop over the replacement fields and the
      two "not used" tests)                  -> gen_field_loop / gen_fields_check

Fail-closed `ast` walker: every statement is matched against the shapes below
and translated from what it says (tests, yielded messages, order of the
statements); anything else raises TranslateError (reported as a broken
obligation).  Proofs/FormatGen.v proves each generated function equal to the
hand-written model on every run.  Not translated (hand-modelled, tied by the
differential): the unwrapping of the argument Value at the top of
accept_tuple_args_no_mvv and accept_mapping_args_no_mvv.
"""
import ast
from pathlib import Path


class TranslateError(Exception):
    pass


def _fail(node, why, file="format_strings.py"):
    raise TranslateError(f"{file}:{getattr(node, 'lineno', '?')}: {why}: {ast.dump(node)[:160]}")


def _attr_of(e, var):
    """e is <var>.<attr> -> attr"""
    if isinstance(e, ast.Attribute) and isinstance(e.value, ast.Name) and e.value.id == var:
        return e.attr
    return None


def _msg(node):
    if isinstance(node, ast.Constant) and isinstance(node.value, str):
        return node.value
    if isinstance(node, ast.JoinedStr):
        return "".join(v.value if isinstance(v, ast.Constant) else "{}" for v in node.values)
    if isinstance(node, ast.Call) and isinstance(node.func, ast.Attribute) and node.func.attr == "format":
        return _msg(node.func.value)
    return None


# ---------------------------------------------------------------------------
# conversion-specifier tests (variable `var` is a ConversionSpecifier)


def spec_test(e, var):
    if isinstance(e, ast.BoolOp):
        op = " && " if isinstance(e.op, ast.And) else " || "
        return "(" + op.join(spec_test(v, var) for v in e.values) + ")"
    if isinstance(e, ast.Name) and e.id == "needs_mapping":
        return "nm"
    if isinstance(e, ast.Compare) and len(e.ops) == 1:
        a = _attr_of(e.left, var)
        op, right = e.ops[0], e.comparators[0]
        if a in ("field_width", "precision") and isinstance(op, ast.Eq) and isinstance(right, ast.Constant) and right.value == "*":
            return f"(is_star ({'c_width' if a == 'field_width' else 'c_prec'} cs))"
        if a == "conversion_type" and isinstance(right, ast.Constant) and isinstance(right.value, str) and len(right.value) == 1:
            t = f"(c_type cs =? {ord(right.value)})"
            if isinstance(op, ast.Eq):
                return t
            if isinstance(op, ast.NotEq):
                return f"(negb {t})"
        if a == "mapping_key" and isinstance(right, ast.Constant) and right.value is None:
            if isinstance(op, ast.Is):
                return "(negb (is_some (c_key cs)))"
            if isinstance(op, ast.IsNot):
                return "(is_some (c_key cs))"
    _fail(e, "unsupported test on a conversion specifier")


def tr_needs_mapping(fn):
    body = [s for s in fn.body if not (isinstance(s, ast.Expr) and isinstance(s.value, ast.Constant))]
    if len(body) == 1 and isinstance(body[0], ast.Return):
        c = body[0].value
        if (
            isinstance(c, ast.Call) and isinstance(c.func, ast.Name) and c.func.id == "any" and len(c.args) == 1
            and isinstance(c.args[0], ast.GeneratorExp) and len(c.args[0].generators) == 1
        ):
            g = c.args[0].generators[0]
            if isinstance(g.target, ast.Name) and _attr_of(g.iter, "self") == "specifiers" and not g.ifs:
                return f"existsb (fun cs => {spec_test(c.args[0].elt, g.target.id)}) specs"
    _fail(fn, "needs_mapping: unexpected shape")


def tr_serial(fn):
    body = [s for s in fn.body if not (isinstance(s, ast.Expr) and isinstance(s.value, ast.Constant))]
    if not (len(body) == 1 and isinstance(body[0], ast.For) and isinstance(body[0].target, ast.Name) and _attr_of(body[0].iter, "self") == "specifiers"):
        _fail(fn, "get_serial_specifiers: expected one loop over self.specifiers")
    var = body[0].target.id
    parts = []
    for st in body[0].body:
        if not (isinstance(st, ast.If) and not st.orelse and len(st.body) == 1 and isinstance(st.body[0], ast.Expr) and isinstance(st.body[0].value, ast.Yield)):
            _fail(st, "get_serial_specifiers: expected `if test: yield x`")
        y = st.body[0].value.value
        if isinstance(y, ast.Call) and isinstance(y.func, ast.Name) and y.func.id == "StarConversionSpecifier" and not y.args:
            # which '*' it stands for is read off the test
            a = _attr_of(st.test.left, var) if isinstance(st.test, ast.Compare) else None
            if a not in ("field_width", "precision"):
                _fail(st, "StarConversionSpecifier yielded under an unexpected test")
            item = f"SStar {'false' if a == 'field_width' else 'true'}"
        elif isinstance(y, ast.Name) and y.id == var:
            item = "SSpec cs"
        else:
            _fail(st, "get_serial_specifiers: unexpected yield")
        parts.append(f"(if {spec_test(st.test, var)} then [{item}] else [])")
    return " ++ ".join(parts) if parts else "[]"


LINT_MSGS = [("cannot combine specifiers that require a mapping with those that do not", "LCombine"), ("invalid conversion specifier in {}", "LBadPiece")]


def _yield_ctor(st, table):
    if isinstance(st, ast.Expr) and isinstance(st.value, ast.Yield):
        m = _msg(st.value.value)
        for text, ctor in table:
            if m == text:
                return ctor
    return None


def tr_lint(fn):
    body = [s for s in fn.body if not (isinstance(s, ast.Expr) and isinstance(s.value, ast.Constant))]
    if not (
        len(body) == 3
        and isinstance(body[0], ast.Assign) and isinstance(body[0].targets[0], ast.Name) and body[0].targets[0].id == "needs_mapping"
        and isinstance(body[0].value, ast.Call) and _attr_of(body[0].value.func, "self") == "needs_mapping"
        and isinstance(body[1], ast.For) and _attr_of(body[1].iter, "self") == "specifiers"
        and isinstance(body[2], ast.For) and _attr_of(body[2].iter, "self") == "raw_pieces"
    ):
        _fail(fn, "lint: unexpected shape")
    var = body[1].target.id

    def block(stmts):
        parts = []
        for st in stmts:
            if isinstance(st, ast.Expr) and isinstance(st.value, ast.YieldFrom):
                c = st.value.value
                if isinstance(c, ast.Call) and _attr_of(c.func, var) == "lint" and not c.args:
                    parts.append("gen_spec_lint is_bytes cs")
                    continue
                _fail(st, "lint: unexpected yield from")
            ctor = _yield_ctor(st, LINT_MSGS)
            if ctor:
                parts.append(f"[{ctor}]")
                continue
            if isinstance(st, ast.If) and not st.orelse:
                parts.append(f"(if {spec_test(st.test, var)} then {block(st.body)} else [])")
                continue
            _fail(st, "lint: unsupported statement")
        return "(" + " ++ ".join(parts) + ")" if parts else "[]"

    per_spec = block(body[1].body)
    # the raw-pieces loop: one LBadPiece per piece containing '%'
    p = body[2]
    ok = (
        len(p.body) == 1 and isinstance(p.body[0], ast.If) and not p.body[0].orelse and len(p.body[0].body) == 1
        and _yield_ctor(p.body[0].body[0], LINT_MSGS) == "LBadPiece"
    )
    if ok:
        consts = sorted(repr(n.value) for n in ast.walk(p.body[0].test) if isinstance(n, ast.Constant))
        ins = [n for n in ast.walk(p.body[0].test) if isinstance(n, ast.Compare) and isinstance(n.ops[0], ast.In)]
        ok = consts == ["'%'", "b'%'"] and len(ins) == 2
    if not ok:
        _fail(p, "lint: unexpected raw-pieces loop")
    return per_spec


ARITY_MSGS = [("too few arguments to format string: got {} but expected {}", "ETooFew"), ("too many arguments to format string: got {} but expected {}", "ETooMany")]


def tr_accept_tail(fn):
    body = fn.body
    idx = None
    for i, st in enumerate(body):
        if (
            isinstance(st, ast.Assign) and isinstance(st.targets[0], ast.Name) and st.targets[0].id == "specifiers"
            and isinstance(st.value, ast.Call) and isinstance(st.value.func, ast.Name) and st.value.func.id == "list"
            and isinstance(st.value.args[0], ast.Call) and _attr_of(st.value.args[0].func, "self") == "get_serial_specifiers"
        ):
            idx = i
    if idx is None:
        _fail(fn, "accept_tuple_args_no_mvv: `specifiers = list(self.get_serial_specifiers())` not found")
    tail = body[idx + 1 :]

    def is_len_assign(st, name, of):
        return (
            isinstance(st, ast.Assign) and isinstance(st.targets[0], ast.Name) and st.targets[0].id == name
            and isinstance(st.value, ast.Call) and isinstance(st.value.func, ast.Name) and st.value.func.id == "len"
            and isinstance(st.value.args[0], ast.Name) and st.value.args[0].id == of
        )

    if not (len(tail) == 3 and is_len_assign(tail[0], "num_args", "all_args") and is_len_assign(tail[1], "num_specifiers", "specifiers") and isinstance(tail[2], ast.If)):
        _fail(fn, "accept_tuple_args_no_mvv: unexpected tail")

    def cmp(e):
        if isinstance(e, ast.Compare) and len(e.ops) == 1 and isinstance(e.left, ast.Name) and isinstance(e.comparators[0], ast.Name):
            names = {"num_args": "length all_args", "num_specifiers": "length ss"}
            l, r = names.get(e.left.id), names.get(e.comparators[0].id)
            if l and r:
                if isinstance(e.ops[0], ast.Lt):
                    return f"({l} <? {r})%nat"
                if isinstance(e.ops[0], ast.Gt):
                    return f"({r} <? {l})%nat"
        _fail(e, "accept_tuple_args_no_mvv: unsupported arity test")

    def block(stmts):
        if len(stmts) == 1:
            st = stmts[0]
            ctor = _yield_ctor(st, ARITY_MSGS)
            if ctor:
                return f"[{ctor}]"
            if isinstance(st, ast.If):
                return f"(if {cmp(st.test)} then {block(st.body)} else {block(st.orelse)})"
            if (
                isinstance(st, ast.For) and isinstance(st.iter, ast.Call) and isinstance(st.iter.func, ast.Name) and st.iter.func.id == "zip"
                and [getattr(a, "id", None) for a in st.iter.args] == ["all_args", "specifiers"]
                and isinstance(st.target, ast.Tuple) and [getattr(a, "id", None) for a in st.target.elts] == ["arg", "specifier"]
                and len(st.body) == 1 and isinstance(st.body[0], ast.Expr) and isinstance(st.body[0].value, ast.YieldFrom)
                and _attr_of(st.body[0].value.value.func, "specifier") == "accept"
                and getattr(st.body[0].value.value.args[0], "id", None) == "arg"
            ):
                return "gen_zip accept ss all_args"
        _fail(stmts[0] if stmts else fn, "accept_tuple_args_no_mvv: unsupported statement in the tail")

    return block([tail[2]])


FIELD_MSGS = [
    ("cannot switch from manual field specification to automatic field numbering", "FMix"),
    ("cannot switch from automatic field numbering to manual field specification", "FMix"),
    ("Too few arguments to format string (expected at least {})", "FTooFew"),
    ("Numbered argument {} to format string is out of range", "FOutOfRange"),
    ("Named argument {} to format string was not given", "FNotGiven"),
    ("Numbered argument(s) {} were not used", "FUnusedNumbered"),
    ("Named argument(s) {} were not used", "FUnusedNamed"),
]


def tr_field_loop(fn):
    F = "implementation.py"
    loop = None
    after = None
    for i, st in enumerate(fn.body):
        if isinstance(st, ast.For) and isinstance(st.iter, ast.Call) and isinstance(st.iter.func, ast.Attribute) and st.iter.func.attr == "iter_replacement_fields":
            loop, after = st, fn.body[i + 1 :]
    if loop is None or len(loop.body) != 1 or not isinstance(loop.body[0], ast.If):
        _fail(fn, "_str_format_impl: field loop not found", F)

    def show_error_ctor(st):
        if isinstance(st, ast.Expr) and isinstance(st.value, ast.Call) and isinstance(st.value.func, ast.Attribute) and st.value.func.attr == "show_error":
            m = _msg(st.value.args[0])
            for text, ctor in FIELD_MSGS:
                if m == text:
                    return ctor
        return None

    def cond(e, env):
        # comparisons that guard an error
        if isinstance(e, ast.Compare) and len(e.ops) == 1:
            l, op, r = e.left, e.ops[0], e.comparators[0]
            if isinstance(l, ast.Name) and l.id == "auto_numbering" and isinstance(op, ast.Is) and isinstance(r, ast.Constant):
                return {False: "match st with AManual => true | _ => false end", True: "match st with AAuto => true | _ => false end"}[r.value]
            if isinstance(l, ast.Name) and l.id in env and isinstance(op, ast.GtE) and isinstance(r, ast.Call) and getattr(r.func, "id", None) == "len" and getattr(r.args[0], "id", None) == "args":
                return f"(nargs <=? {env[l.id]})"
            if _attr_of(l, "field") == "arg_name" and isinstance(op, ast.NotIn) and getattr(r, "id", None) == "kwargs":
                return "(negb (name_in s kw))"
        _fail(e, "_str_format_impl: unsupported condition", F)

    def branch(stmts, env):
        """-> (errors term, new numbering state or None, used index or None, used name?, cur increment?)"""
        errs, newst, used_i, used_k, inc = [], None, None, False, False
        for st in stmts:
            if isinstance(st, ast.If) and not st.orelse and len(st.body) == 1 and show_error_ctor(st.body[0]):
                errs.append(f"(if {cond(st.test, env)} then [{show_error_ctor(st.body[0])}] else [])")
            elif isinstance(st, ast.Assign) and getattr(st.targets[0], "id", None) == "auto_numbering" and isinstance(st.value, ast.Constant):
                newst = "AAuto" if st.value.value is True else "AManual"
            elif isinstance(st, ast.Assign) and getattr(st.targets[0], "id", None) == "index" and _attr_of(st.value, "field") == "arg_name":
                env = dict(env, index="i")
            elif isinstance(st, ast.Expr) and isinstance(st.value, ast.Call) and isinstance(st.value.func, ast.Attribute) and st.value.func.attr == "add":
                tgt = getattr(st.value.func.value, "id", None)
                a = st.value.args[0]
                if tgt == "used_indices" and isinstance(a, ast.Name) and a.id in env:
                    used_i = env[a.id]
                elif tgt == "used_kwargs" and _attr_of(a, "field") == "arg_name":
                    used_k = True
                else:
                    _fail(st, "_str_format_impl: unsupported add", F)
            elif isinstance(st, ast.AugAssign) and getattr(st.target, "id", None) == "current_index" and isinstance(st.op, ast.Add) and getattr(st.value, "value", None) == 1:
                inc = True
            else:
                _fail(st, "_str_format_impl: unsupported statement in the field loop", F)
        return " ++ ".join(errs) if errs else "[]", newst, used_i, used_k, inc

    top = loop.body[0]
    t1 = top.test
    if not (isinstance(t1, ast.Compare) and _attr_of(t1.left, "field") == "arg_name" and isinstance(t1.ops[0], ast.Is) and t1.comparators[0].value is None):
        _fail(top, "_str_format_impl: first test is not `field.arg_name is None`", F)
    if not (len(top.orelse) == 1 and isinstance(top.orelse[0], ast.If)):
        _fail(top, "_str_format_impl: expected elif isinstance(field.arg_name, int)", F)
    mid = top.orelse[0]
    t2 = mid.test
    if not (isinstance(t2, ast.Call) and getattr(t2.func, "id", None) == "isinstance" and _attr_of(t2.args[0], "field") == "arg_name" and getattr(t2.args[1], "id", None) == "int"):
        _fail(mid, "_str_format_impl: second test is not isinstance(field.arg_name, int)", F)
    b_none = branch(top.body, {"current_index": "cur"})
    b_num = branch(mid.body, {"current_index": "cur"})
    b_name = branch(mid.orelse, {"current_index": "cur"})

    def arm(b, default_used):
        errs, newst, used_i, used_k, inc = b
        st = newst or "st"
        cur = "(cur + 1)" if inc else "cur"
        ui = f"{used_i} :: ui" if used_i else "ui"
        uk = "s :: uk" if used_k else "uk"
        return f"let '(e, ui, uk) := gen_field_loop fs nargs kw {st} {cur} in (({errs}) ++ e, {ui}, {uk})"

    loop_txt = (
        "Fixpoint gen_field_loop (fields : list field) (nargs : N) (kw : list (list N)) (st : anstate) (cur : N)\n"
        "  : list ferr * list N * list (list N) :=\n"
        "  match fields with\n  | [] => ([], [], [])\n  | fd :: fs =>\n      match f_name fd with\n"
        f"      | ANone => {arm(b_none, None)}\n"
        f"      | ANum i => {arm(b_num, None)}\n"
        f"      | AName s => {arm(b_name, None)}\n"
        "      end\n  end."
    )
    # the "not used" tests: shape check, then fixed text
    ok = False
    if len(after) >= 1 and isinstance(after[0], ast.If):
        inner = after[0].body
        if (
            len(inner) == 4
            and isinstance(inner[0], ast.Assign) and getattr(inner[0].targets[0], "id", None) == "unused_indices"
            and isinstance(inner[0].value, ast.BinOp) and isinstance(inner[0].value.op, ast.Sub) and getattr(inner[0].value.right, "id", None) == "used_indices"
            and isinstance(inner[1], ast.If) and getattr(inner[1].test, "id", None) == "unused_indices" and show_error_ctor(inner[1].body[0]) == "FUnusedNumbered"
            and isinstance(inner[2], ast.Assign) and getattr(inner[2].targets[0], "id", None) == "unused_kwargs"
            and isinstance(inner[2].value, ast.BinOp) and isinstance(inner[2].value.op, ast.Sub) and getattr(inner[2].value.right, "id", None) == "used_kwargs"
            and isinstance(inner[3], ast.If) and getattr(inner[3].test, "id", None) == "unused_kwargs" and show_error_ctor(inner[3].body[0]) == "FUnusedNamed"
        ):
            ok = True
    if not ok:
        _fail(fn, "_str_format_impl: unexpected 'not used' tests", F)
    check_txt = (
        "Definition gen_fields_check (fields : list field) (nargs : N) (kw : list (list N)) : list ferr :=\n"
        "  let '(e, ui, uk) := gen_field_loop fields nargs kw AInit 0 in\n"
        "  e ++ (if forallb (fun i => mem i ui) (range_N (N.to_nat nargs)) then [] else [FUnusedNumbered])\n"
        "    ++ (if forallb (fun s => name_in s uk) kw then [] else [FUnusedNamed])."
    )
    return loop_txt, check_txt


def translate(repo: str) -> str:
    fs_tree = ast.parse((Path(repo) / "pyanalyze" / "format_strings.py").read_text())
    fns = {}
    for node in fs_tree.body:
        if isinstance(node, ast.ClassDef) and node.name == "PercentFormatString":
            for fn in node.body:
                if isinstance(fn, ast.FunctionDef):
                    fns[fn.name] = fn
    for need in ("needs_mapping", "get_serial_specifiers", "lint", "accept_tuple_args_no_mvv"):
        if need not in fns:
            raise TranslateError(f"format_strings.py: PercentFormatString.{need} not found")
    impl_tree = ast.parse((Path(repo) / "pyanalyze" / "implementation.py").read_text())
    impl = [n for n in impl_tree.body if isinstance(n, ast.FunctionDef) and n.name == "_str_format_impl"]
    if not impl:
        raise TranslateError("implementation.py: _str_format_impl not found")
    loop_txt, check_txt = tr_field_loop(impl[0])
    out = [
        "(* GENERATED by harness/translate/formatloops.py from pyanalyze/format_strings.py and implementation.py — do not edit *)",
        "From Coq Require Import ZArith NArith List Bool.",
        "Import ListNotations.",
        "Require Import PV.Gen.FormatRe PV.Gen.FormatAccept PV.Format.Percent PV.Format.StrFormat.",
        "Open Scope N_scope.",
        "(* PercentFormatString.needs_mapping *)",
        f"Definition gen_needs_mapping (specs : list cspec) : bool := {tr_needs_mapping(fns['needs_mapping'])}.",
        "(* PercentFormatString.get_serial_specifiers: the body of the loop, then the loop *)",
        f"Definition gen_serial_of (cs : cspec) : list serial := {tr_serial(fns['get_serial_specifiers'])}.",
        "Definition gen_serial_specifiers (specs : list cspec) : list serial := flat_map gen_serial_of specs.",
        "(* PercentFormatString.lint: the body of the loop over the specifiers, then both loops *)",
        f"Definition gen_lint_of (is_bytes nm : bool) (cs : cspec) : list lint_err := {tr_lint(fns['lint'])}.",
        "Definition gen_pa_lint (is_bytes : bool) (specs : list cspec) (bad_pieces : nat) : list lint_err :=",
        "  flat_map (gen_lint_of is_bytes (gen_needs_mapping specs)) specs ++ repeat LBadPiece bad_pieces.",
        "(* accept_tuple_args_no_mvv after `specifiers = list(self.get_serial_specifiers())` *)",
        "Fixpoint gen_zip {A : Type} (accept : serial -> A -> list acc_err) (ss : list serial) (all_args : list A) : list acc_err :=",
        "  match all_args, ss with",
        "  | a :: all_args', s :: ss' => accept s a ++ gen_zip accept ss' all_args'",
        "  | _, _ => []",
        "  end.",
        "Definition gen_accept_tail {A : Type} (accept : serial -> A -> list acc_err) (ss : list serial) (all_args : list A) : list acc_err :=",
        f"  {tr_accept_tail(fns['accept_tuple_args_no_mvv'])}.",
        "(* implementation._str_format_impl: the loop over the replacement fields *)",
        loop_txt,
        check_txt,
        "",
    ]
    return "\n".join(out)


if __name__ == "__main__":
    import sys

    print(translate(sys.argv[1] if len(sys.argv) > 1 else "/repo"))
