"""Translator for the line/file family (C11, C16):

  pyanalyze/node_visitor.py, pyanalyze/error_code.py, pyanalyze/name_check_visitor.py
      -> coq/theories/Gen/Codes.v      (constants: IGNORE_COMMENT, the error-code registry,
                                        DISABLED_BY_DEFAULT, the codes of the two final passes)
      -> coq/theories/Gen/SuppressGen.v (functions: the per-line ignore test of show_error,
                                        has_file_level_ignore, get_unused_ignores, the bare-ignore
                                        line filter, _apply_changes_to_lines, the add-ignores
                                        replacement) translated statement by statement

Fail-closed: every statement / expression must have exactly the shape the
translator understands, otherwise TranslateError (reported by the check as a
broken obligation).
"""
import ast
from pathlib import Path


class TranslateError(Exception):
    pass


def _fail(node, why, fname="?"):
    raise TranslateError(f"{fname}:{getattr(node, 'lineno', '?')}: {why}: {ast.dump(node)[:300] if isinstance(node, ast.AST) else node}")


def chars(s: str) -> str:
    return "[" + "; ".join(f"{ord(c)}%N" for c in s) + "]"


def _module(repo, rel):
    p = Path(repo) / "pyanalyze" / rel
    return ast.parse(p.read_text(), str(p))


def _toplevel_assign(mod, name, fname):
    hits = [n for n in mod.body if isinstance(n, ast.Assign) and len(n.targets) == 1 and isinstance(n.targets[0], ast.Name) and n.targets[0].id == name]
    if len(hits) != 1:
        raise TranslateError(f"{fname}: expected exactly one top-level assignment to {name}, found {len(hits)}")
    return hits[0].value


def _find_method(mod, cls, meth, fname):
    for n in mod.body:
        if isinstance(n, ast.ClassDef) and n.name == cls:
            hits = [m for m in n.body if isinstance(m, ast.FunctionDef) and m.name == meth]
            if len(hits) == 1:
                return hits[0]
    raise TranslateError(f"{fname}: method {cls}.{meth} not found exactly once")


def read_codes(repo):
    """-> (ignore_comment, [names], {set name: [names]})"""
    nv = _module(repo, "node_visitor.py")
    ign = _toplevel_assign(nv, "IGNORE_COMMENT", "node_visitor.py")
    if not (isinstance(ign, ast.Constant) and isinstance(ign.value, str)):
        _fail(ign, "IGNORE_COMMENT is not a string literal", "node_visitor.py")
    ec = _module(repo, "error_code.py")
    reg = _toplevel_assign(ec, "ErrorCode", "error_code.py")
    if not (isinstance(reg, ast.Call) and isinstance(reg.func, ast.Name) and reg.func.id == "ErrorRegistry" and len(reg.args) == 1 and isinstance(reg.args[0], ast.List) and not reg.keywords):
        _fail(reg, "ErrorCode is not ErrorRegistry([...])", "error_code.py")
    names = []
    for e in reg.args[0].elts:
        if not (isinstance(e, ast.Call) and isinstance(e.func, ast.Name) and e.func.id == "Error" and len(e.args) == 2 and isinstance(e.args[0], ast.Constant) and isinstance(e.args[0].value, str)):
            _fail(e, "registry entry is not Error(\"name\", ...)", "error_code.py")
        names.append(e.args[0].value)
    sets = {}
    for sname in ("DISABLED_IN_TESTS", "DISABLED_BY_DEFAULT"):
        v = _toplevel_assign(ec, sname, "error_code.py")
        if not isinstance(v, ast.Set):
            _fail(v, f"{sname} is not a set display", "error_code.py")
        members = []
        for e in v.elts:
            if isinstance(e, ast.Starred) and isinstance(e.value, ast.Name) and e.value.id in sets:
                members += sets[e.value.id]
            elif isinstance(e, ast.Attribute) and isinstance(e.value, ast.Name) and e.value.id == "ErrorCode":
                if e.attr not in names:
                    _fail(e, "unknown error code", "error_code.py")
                members.append(e.attr)
            else:
                _fail(e, f"unsupported member of {sname}", "error_code.py")
        sets[sname] = members
    return ign.value, names, sets


def tail_codes(repo):
    """The error codes NameCheckVisitor.check passes to the two final passes, in call order."""
    ncv = _module(repo, "name_check_visitor.py")
    chk = _find_method(ncv, "NameCheckVisitor", "check", "name_check_visitor.py")
    calls = []
    for n in ast.walk(chk):
        if isinstance(n, ast.Call) and isinstance(n.func, ast.Attribute) and n.func.attr in ("show_errors_for_unused_ignores", "show_errors_for_bare_ignores"):
            if not (isinstance(n.func.value, ast.Name) and n.func.value.id == "self" and len(n.args) == 1 and not n.keywords and isinstance(n.args[0], ast.Attribute) and isinstance(n.args[0].value, ast.Name) and n.args[0].value.id == "ErrorCode"):
                _fail(n, "unexpected call shape of a final pass", "name_check_visitor.py")
            calls.append((n.lineno, n.func.attr, n.args[0].attr))
    calls.sort()
    if [c[1] for c in calls] != ["show_errors_for_unused_ignores", "show_errors_for_bare_ignores"]:
        raise TranslateError(f"name_check_visitor.py: NameCheckVisitor.check no longer calls the unused pass then the bare pass exactly once each: {calls}")
    return calls[0][2], calls[1][2]


def translate_codes(repo) -> str:
    ign, names, sets = read_codes(repo)
    unused, bare = tail_codes(repo)
    idx = {n: i for i, n in enumerate(names)}
    out = [
        "(* GENERATED by harness/translate/lines.py from pyanalyze/node_visitor.py,",
        "   pyanalyze/error_code.py and pyanalyze/name_check_visitor.py.  Do not edit. *)",
        "From Coq Require Import List NArith.",
        "Import ListNotations.",
        "",
        f"(* IGNORE_COMMENT = {ign!r} *)",
        f"Definition IGNORE_COMMENT : list N := {chars(ign)}.",
        "",
        "(* the ErrorCode registry, in registration order: code c <-> nth c code_names *)",
        "Definition code_names : list (list N) := [",
        ";\n".join(f"  (* {i} {n} *) {chars(n)}" for i, n in enumerate(names)),
        "].",
        "Definition code_name (c : N) : list N := nth (N.to_nat c) code_names [].",
        f"Definition n_codes : N := {len(names)}%N.",
        "",
        "Definition disabled_in_tests : list N := [" + "; ".join(f"{idx[n]}%N" for n in sets["DISABLED_IN_TESTS"]) + "].",
        "Definition disabled_by_default : list N := [" + "; ".join(f"{idx[n]}%N" for n in sets["DISABLED_BY_DEFAULT"]) + "].",
        "",
        f"(* NameCheckVisitor.check: show_errors_for_unused_ignores(ErrorCode.{unused}); show_errors_for_bare_ignores(ErrorCode.{bare}) *)",
        f"Definition unused_ignore_code : N := {idx[unused]}%N.",
        f"Definition bare_ignore_code : N := {idx[bare]}%N.",
        "",
    ]
    return "\n".join(out)


# ---------------------------------------------------------------------------
# functions

class _Expr:
    """Expression translator for the string/line tests of node_visitor.py.
    env maps Python local names to (Gallina text, type) with type in
    {"line", "file", "nat", "code"}; `error_code` is an `option N` in scope
    only inside an `error_code is not None and ...` conjunct (then "c0")."""

    def __init__(self, fname, ignore_names):
        self.fname = fname
        self.ignore_names = ignore_names  # Python names bound to IGNORE_COMMENT

    def fail(self, node, why):
        _fail(node, why, self.fname)

    def is_ignore_name(self, e):
        return isinstance(e, ast.Name) and e.id in self.ignore_names

    def is_tag(self, e):
        # f"{ignore_comment}[{error_code.name}]"
        return (
            isinstance(e, ast.JoinedStr)
            and len(e.values) == 4
            and isinstance(e.values[0], ast.FormattedValue)
            and self.is_ignore_name(e.values[0].value)
            and e.values[0].conversion == -1 and e.values[0].format_spec is None
            and isinstance(e.values[1], ast.Constant) and e.values[1].value == "["
            and isinstance(e.values[2], ast.FormattedValue)
            and isinstance(e.values[2].value, ast.Attribute)
            and isinstance(e.values[2].value.value, ast.Name)
            and e.values[2].value.value.id == "error_code"
            and e.values[2].value.attr == "name"
            and e.values[2].conversion == -1 and e.values[2].format_spec is None
            and isinstance(e.values[3], ast.Constant) and e.values[3].value == "]"
        )

    def text(self, e, env, code_ok):
        """An expression of type str -> Gallina of type list N."""
        if self.is_ignore_name(e):
            return "IGNORE_COMMENT"
        if isinstance(e, ast.Constant) and isinstance(e.value, str):
            return chars(e.value) if e.value else "[]"
        if self.is_tag(e):
            if not code_ok:
                self.fail(e, "error_code.name used where error_code may be None")
            return "(tag IGNORE_COMMENT code_name c0)"
        if isinstance(e, ast.Name) and e.id in env and env[e.id][1] == "line":
            return env[e.id][0]
        if isinstance(e, ast.BinOp) and isinstance(e.op, ast.Add):
            return f"({self.text(e.left, env, code_ok)} ++ {self.text(e.right, env, code_ok)})"
        if isinstance(e, ast.Call) and isinstance(e.func, ast.Attribute) and e.func.attr == "strip" and not e.args and not e.keywords:
            return f"(strip {self.text(e.func.value, env, code_ok)})"
        if isinstance(e, ast.Subscript) and isinstance(e.value, ast.Name) and e.value.id in env and env[e.value.id][1] == "file":
            return f"(py_index {env[e.value.id][0]} {self.zint(e.slice, env)})"
        if isinstance(e, ast.IfExp):
            return f"(if {self.boolean(e.test, env, code_ok)} then {self.text(e.body, env, code_ok)} else {self.text(e.orelse, env, code_ok)})"
        self.fail(e, "unsupported string expression")

    def zint(self, e, env):
        if isinstance(e, ast.Name) and e.id in env and env[e.id][1] == "nat":
            return f"(Z.of_nat {env[e.id][0]})"
        if isinstance(e, ast.Constant) and isinstance(e.value, int) and not isinstance(e.value, bool):
            return f"({e.value})%Z"
        if isinstance(e, ast.BinOp) and isinstance(e.op, (ast.Sub, ast.Add)):
            op = "-" if isinstance(e.op, ast.Sub) else "+"
            return f"({self.zint(e.left, env)} {op} {self.zint(e.right, env)})%Z"
        self.fail(e, "unsupported integer expression")

    def boolean(self, e, env, code_ok=False):
        if isinstance(e, ast.BoolOp):
            if isinstance(e.op, ast.Or):
                return "(" + " || ".join(self.boolean(v, env, code_ok) for v in e.values) + ")"
            # `error_code is not None and X`: X may use error_code.name
            vals = list(e.values)
            if (len(vals) == 2 and isinstance(vals[0], ast.Compare) and isinstance(vals[0].left, ast.Name) and vals[0].left.id == "error_code"
                    and len(vals[0].ops) == 1 and isinstance(vals[0].ops[0], ast.IsNot)
                    and isinstance(vals[0].comparators[0], ast.Constant) and vals[0].comparators[0].value is None):
                return f"(match error_code with Some c0 => {self.boolean(vals[1], env, True)} | None => false end)"
            return "(" + " && ".join(self.boolean(v, env, code_ok) for v in vals) + ")"
        if isinstance(e, ast.UnaryOp) and isinstance(e.op, ast.Not):
            return f"(negb {self.boolean(e.operand, env, code_ok)})"
        if isinstance(e, ast.Compare) and len(e.ops) == 1:
            op, l, r = e.ops[0], e.left, e.comparators[0]
            if isinstance(op, ast.Eq):
                return f"(list_N_eqb {self.text(l, env, code_ok)} {self.text(r, env, code_ok)})"
            if isinstance(op, (ast.In, ast.NotIn)):
                if isinstance(r, ast.Attribute) and isinstance(r.value, ast.Name) and r.value.id == "self" and r.attr == "used_ignores":
                    if not (isinstance(l, ast.Name) and l.id in env and env[l.id][1] == "nat"):
                        self.fail(e, "membership in used_ignores of a non-index")
                    t = f"(mem_nat {env[l.id][0]} used_ignores)"
                else:
                    t = f"(substr {self.text(l, env, code_ok)} {self.text(r, env, code_ok)})"
                return t if isinstance(op, ast.In) else f"(negb {t})"
            if isinstance(op, ast.GtE) and isinstance(l, ast.Name) and l.id in env and env[l.id][1] == "nat" and isinstance(r, ast.Constant) and isinstance(r.value, int):
                return f"({r.value} <=? {env[l.id][0]})"
        if isinstance(e, ast.Call) and isinstance(e.func, ast.Attribute):
            f = e.func
            if f.attr == "startswith" and len(e.args) == 1 and not e.keywords:
                return f"(prefix {self.text(e.args[0], env, code_ok)} {self.text(f.value, env, code_ok)})"
            if (f.attr == "search" and isinstance(f.value, ast.Name) and f.value.id == "re" and len(e.args) == 2 and not e.keywords):
                pat = e.args[0]
                # f"{re.escape(ignore_comment)}(?!\\[)"
                if (isinstance(pat, ast.JoinedStr) and len(pat.values) == 2 and isinstance(pat.values[0], ast.FormattedValue)
                        and isinstance(pat.values[0].value, ast.Call) and ast.unparse(pat.values[0].value.func) == "re.escape"
                        and len(pat.values[0].value.args) == 1 and self.is_ignore_name(pat.values[0].value.args[0])
                        and isinstance(pat.values[1], ast.Constant) and pat.values[1].value == "(?!\\[)"):
                    return f"(has_bare IGNORE_COMMENT {self.text(e.args[1], env, code_ok)})"
                self.fail(e, "unsupported regular expression")
        self.fail(e, "unsupported boolean expression")


def _is_used_add(stmt, index_src):
    return (isinstance(stmt, ast.Expr) and isinstance(stmt.value, ast.Call) and ast.unparse(stmt.value.func) == "self.used_ignores.add"
            and len(stmt.value.args) == 1 and ast.unparse(stmt.value.args[0]) == index_src)


def _is_return(stmt, value_src):
    if not isinstance(stmt, ast.Return):
        return False
    return (stmt.value is None and value_src is None) or (stmt.value is not None and ast.unparse(stmt.value) == value_src)


def _enumerate_lines_loop(node, fname):
    """for i, line in enumerate(self._lines()) -> ok"""
    if not (isinstance(node.target, ast.Tuple) and [getattr(t, "id", None) for t in node.target.elts] == ["i", "line"]
            and ast.unparse(node.iter) == "enumerate(self._lines())"):
        _fail(node, "loop is not `for i, line in enumerate(self._lines())`", fname)


def translate_functions(repo) -> str:
    fname = "node_visitor.py"
    nv = _module(repo, fname)
    out = [
        "(* GENERATED by harness/translate/lines.py from pyanalyze/node_visitor.py",
        "   (show_error, has_file_level_ignore, get_unused_ignores,",
        "   show_errors_for_bare_ignores, show_errors_for_unused_ignores).  Do not edit. *)",
        "From Coq Require Import List Bool NArith ZArith Arith.",
        "Import ListNotations.",
        "Require Import PV.Lines.Text PV.Lines.Suppress PV.Gen.Codes.",
        "Local Open Scope bool_scope.",
        "",
    ]

    # ---- show_error: the order of the gates, and the per-line block --------
    se = _find_method(nv, "BaseNodeVisitor", "show_error", fname)
    defaults = {a.arg: d for a, d in zip(se.args.kwonlyargs, se.args.kw_defaults)}
    if not (isinstance(defaults.get("ignore_comment"), ast.Name) and defaults["ignore_comment"].id == "IGNORE_COMMENT"):
        raise TranslateError("node_visitor.py: show_error's ignore_comment default is not IGNORE_COMMENT")
    if not (isinstance(defaults.get("obey_ignore"), ast.Constant) and defaults["obey_ignore"].value is True):
        raise TranslateError("node_visitor.py: show_error's obey_ignore default is not True")
    gates = []
    line_block = None
    KEY = ("used_ignores", "seen_errors", "is_enabled", "has_file_level_ignore", "all_failures", "caught_errors")
    for stmt in se.body:
        src = ast.unparse(stmt)
        has_ret = any(isinstance(n, ast.Return) for n in ast.walk(stmt))
        if not has_ret and not any(k in src for k in KEY):
            continue
        if isinstance(stmt, ast.Expr) and isinstance(stmt.value, ast.Constant):
            continue
        if isinstance(stmt, ast.If) and ast.unparse(stmt.test) == "self.caught_errors is not None":
            gates.append("caught")
        elif isinstance(stmt, ast.If) and ast.unparse(stmt.test) == "error_code is not None and (not self.is_enabled(error_code))" and len(stmt.body) == 1 and _is_return(stmt.body[0], "None") and not stmt.orelse:
            gates.append("enabled")
        elif isinstance(stmt, ast.If) and ast.unparse(stmt.test) == "self.has_file_level_ignore(error_code, ignore_comment)" and len(stmt.body) == 1 and _is_return(stmt.body[0], "None") and not stmt.orelse:
            gates.append("file_level")
        elif isinstance(stmt, ast.If) and ast.unparse(stmt.test) == "key in self.seen_errors" and _is_return(stmt.body[-1], "None") and not stmt.orelse:
            gates.append("seen")
        elif src == "self.seen_errors.add(key)":
            gates.append("seen_add")
        elif isinstance(stmt, ast.If) and ast.unparse(stmt.test) == "obey_ignore and lineno is not None" and not stmt.orelse:
            gates.append("line")
            line_block = stmt
        elif isinstance(stmt, ast.If) and ast.unparse(stmt.test) == "save" and ast.unparse(stmt.body[0]) == "self.all_failures.append(error)":
            gates.append("save")
        elif isinstance(stmt, ast.If) and ast.unparse(stmt.test) == "self.fail_after_first":
            gates.append("fail_after_first")
        elif isinstance(stmt, ast.Return) and ast.unparse(stmt.value) == "error":
            gates.append("return_error")
        else:
            _fail(stmt, "show_error: unrecognised statement that returns or touches the suppression state", fname)
    key_stmt = [s_ for s_ in se.body if isinstance(s_, ast.Assign) and ast.unparse(s_.targets[0]) == "key"]
    if len(key_stmt) != 1 or ast.unparse(key_stmt[0].value) != "(node, error_code or e)":
        raise TranslateError("node_visitor.py: show_error: key is not (node, error_code or e)")
    ln_stmt = [s_ for s_ in se.body if isinstance(s_, ast.If) and ast.unparse(s_.test) == "node and hasattr(node, 'lineno') and hasattr(node, 'col_offset')"]
    if len(ln_stmt) != 1 or ast.unparse(ln_stmt[0].body[0]) != "lineno = node.lineno":
        raise TranslateError("node_visitor.py: show_error: lineno is not node.lineno")
    GATE_IDS = {"caught": 0, "enabled": 1, "file_level": 2, "seen": 3, "seen_add": 4, "line": 5, "save": 6, "fail_after_first": 7, "return_error": 8}
    out.append("(* show_error: the statements that return or touch used_ignores / seen_errors / all_failures, in source order:")
    out.append("   " + ", ".join(gates) + " *)")
    out.append("Definition show_error_gates : list nat := [" + "; ".join(str(GATE_IDS[g]) for g in gates) + "].")
    out.append("")
    if line_block is None:
        raise TranslateError("node_visitor.py: show_error: the `if obey_ignore and lineno is not None:` block was not found")
    ex = _Expr(fname, {"ignore_comment"})
    b = line_block.body
    ok = (len(b) == 4 and isinstance(b[0], ast.Assign) and ast.unparse(b[0].targets[0]) == "this_line"
          and isinstance(b[1], ast.If) and not b[1].orelse and len(b[1].body) == 2
          and isinstance(b[2], ast.Assign) and ast.unparse(b[2].targets[0]) == "prev_line"
          and isinstance(b[3], ast.If) and not b[3].orelse and len(b[3].body) == 2)
    if not ok:
        _fail(line_block, "show_error: unexpected shape of the per-line ignore block", fname)
    idx1 = ast.unparse(b[1].body[0].value.args[0]) if isinstance(b[1].body[0], ast.Expr) and isinstance(b[1].body[0].value, ast.Call) and b[1].body[0].value.args else None
    idx2 = ast.unparse(b[3].body[0].value.args[0]) if isinstance(b[3].body[0], ast.Expr) and isinstance(b[3].body[0].value, ast.Call) and b[3].body[0].value.args else None
    if idx1 is None or idx2 is None or not _is_used_add(b[1].body[0], idx1) or not _is_used_add(b[3].body[0], idx2) or not _is_return(b[1].body[1], None) or not _is_return(b[3].body[1], None):
        _fail(line_block, "show_error: the ignore branches must be `self.used_ignores.add(<index>); return`", fname)
    env = {"lines": ("lines", "file"), "lineno": ("lineno", "nat")}
    this_line = ex.text(b[0].value, env, False)
    env1 = dict(env, this_line=("this_line", "line"))
    test1 = ex.boolean(b[1].test, env1)
    prev_line = ex.text(b[2].value, env1, False)
    env2 = dict(env1, prev_line=("prev_line", "line"))
    test2 = ex.boolean(b[3].test, env2)
    out += [
        "(* show_error, `if obey_ignore and lineno is not None:` — Some z: suppressed, z added to used_ignores *)",
        "Definition line_ignore (lines : file) (lineno : nat) (error_code : option N) : option Z :=",
        f"  let this_line := {this_line} in",
        f"  if {test1}",
        f"  then Some {ex.zint(b[1].body[0].value.args[0], env)}",
        "  else",
        f"    let prev_line := {prev_line} in",
        f"    if {test2}",
        f"    then Some {ex.zint(b[3].body[0].value.args[0], env)}",
        "    else None.",
        "",
    ]

    # ---- has_file_level_ignore ------------------------------------------
    fl = _find_method(nv, "BaseNodeVisitor", "has_file_level_ignore", fname)
    fdefaults = dict(zip([a.arg for a in fl.args.args][-len(fl.args.defaults):], fl.args.defaults))
    if not (isinstance(fdefaults.get("ignore_comment"), ast.Name) and fdefaults["ignore_comment"].id == "IGNORE_COMMENT"
            and isinstance(fdefaults.get("error_code"), ast.Constant) and fdefaults["error_code"].value is None):
        raise TranslateError("node_visitor.py: has_file_level_ignore: unexpected defaults")
    body = [s_ for s_ in fl.body if not (isinstance(s_, ast.Expr) and isinstance(s_.value, ast.Constant))]
    if not (len(body) == 2 and isinstance(body[0], ast.For) and not body[0].orelse and _is_return(body[1], "False")):
        _fail(fl, "has_file_level_ignore: expected `for ...: ...` then `return False`", fname)
    loop = body[0]
    _enumerate_lines_loop(loop, fname)
    lb = loop.body
    if not (len(lb) == 2 and isinstance(lb[0], ast.If) and not lb[0].orelse and len(lb[0].body) == 1 and _is_return(lb[0].body[0], "False")
            and isinstance(lb[1], ast.If) and not lb[1].orelse and len(lb[1].body) == 2 and _is_used_add(lb[1].body[0], "i") and _is_return(lb[1].body[1], "True")):
        _fail(loop, "has_file_level_ignore: unexpected loop body", fname)
    envl = {"line": ("line", "line"), "i": ("i", "nat")}
    out += [
        "(* has_file_level_ignore(error_code): Some i = True and i added to used_ignores *)",
        "Fixpoint fl_scan (error_code : option N) (ls : file) (i : nat) : option nat :=",
        "  match ls with",
        "  | [] => None",
        "  | line :: rest =>",
        f"      if {ex.boolean(lb[0].test, envl)} then None",
        f"      else if {ex.boolean(lb[1].test, envl)} then Some i",
        "      else fl_scan error_code rest (S i)",
        "  end.",
        "",
    ]

    # ---- get_unused_ignores ------------------------------------------------
    exg = _Expr(fname, {"IGNORE_COMMENT"})
    gu = _find_method(nv, "BaseNodeVisitor", "get_unused_ignores", fname)
    body = [s_ for s_ in gu.body if not (isinstance(s_, ast.Expr) and isinstance(s_.value, ast.Constant))]
    if not (len(body) == 1 and isinstance(body[0], ast.Return) and isinstance(body[0].value, ast.ListComp)):
        _fail(gu, "get_unused_ignores: expected a single list comprehension", fname)
    lc = body[0].value
    if not (ast.unparse(lc.elt) == "(i, line)" and len(lc.generators) == 1 and len(lc.generators[0].ifs) == 1 and not lc.generators[0].is_async):
        _fail(lc, "get_unused_ignores: unexpected comprehension", fname)
    _enumerate_lines_loop(lc.generators[0], fname)
    out += [
        "(* get_unused_ignores *)",
        "Definition unused_lines (lines : file) (used_ignores : list nat) : list (nat * line) :=",
        f"  filter (fun il => let i := fst il in let line := snd il in {exg.boolean(lc.generators[0].ifs[0], envl)}) (enum_from 0 lines).",
        "",
    ]

    # ---- show_errors_for_bare_ignores -------------------------------------
    sb = _find_method(nv, "BaseNodeVisitor", "show_errors_for_bare_ignores", fname)
    body = [s_ for s_ in sb.body if not (isinstance(s_, ast.Expr) and isinstance(s_.value, ast.Constant))]
    if not (len(body) == 2 and isinstance(body[0], ast.If) and ast.unparse(body[0].test) == "self.has_file_level_ignore()" and len(body[0].body) == 1
            and _is_return(body[0].body[0], None) and not body[0].orelse and isinstance(body[1], ast.For) and not body[1].orelse):
        _fail(sb, "show_errors_for_bare_ignores: expected `if self.has_file_level_ignore(): return` then a loop", fname)
    _enumerate_lines_loop(body[1], fname)
    lb = body[1].body
    if not (len(lb) == 1 and isinstance(lb[0], ast.If) and not lb[0].orelse and len(lb[0].body) == 2
            and ast.unparse(lb[0].body[0]) == "node = _FakeNode(i + 1, line.index(IGNORE_COMMENT))"
            and ast.unparse(lb[0].body[1]) == "self.show_error(node, error_code=error_code, obey_ignore=False)"):
        _fail(body[1], "show_errors_for_bare_ignores: unexpected loop body", fname)
    out += [
        "(* show_errors_for_bare_ignores: the lines reported (when there is no bare file-level ignore) *)",
        "Definition bare_lines (lines : file) : list (nat * line) :=",
        f"  filter (fun il => let i := fst il in let line := snd il in {exg.boolean(lb[0].test, envl)}) (enum_from 0 lines).",
        "",
    ]

    # ---- _lines / _split_lines: the file the model sees is split like the tokenizer does ----
    ln = _find_method(nv, "BaseNodeVisitor", "_lines", fname)
    if [ast.unparse(x) for x in ln.body] != ["return _split_lines(self.contents)"]:
        raise TranslateError("node_visitor.py: _lines is not `return _split_lines(self.contents)`")
    sl = [n for n in nv.body if isinstance(n, ast.FunctionDef) and n.name == "_split_lines"]
    sl_body = [ast.unparse(x) for x in sl[0].body if not (isinstance(x, ast.Expr) and isinstance(x.value, ast.Constant))] if len(sl) == 1 else None
    ref = ast.parse('lines = re.split(r"\\r\\n|\\r|\\n", contents)\nif lines and lines[-1] == "":\n    lines.pop()\nreturn_ = [line + "\\n" for line in lines]\n')
    want_sl = [ast.unparse(x) for x in ref.body]
    want_sl[2] = want_sl[2].replace("return_ = ", "return ")
    if sl_body != want_sl:
        raise TranslateError(f"node_visitor.py: _split_lines changed: {sl_body}")
    out += ["(* _split_lines: a line ends at \\r\\n, \\r or \\n only *)",
            "Definition line_terminators : list (list N) := [[13%N; 10%N]; [13%N]; [10%N]].", ""]

    # ---- show_errors_for_unused_ignores: shape only -------------------------
    su = _find_method(nv, "BaseNodeVisitor", "show_errors_for_unused_ignores", fname)
    body = [s_ for s_ in su.body if not (isinstance(s_, ast.Expr) and isinstance(s_.value, ast.Constant))]
    if not (len(body) == 1 and isinstance(body[0], ast.For) and ast.unparse(body[0].target) == "(i, line)" and ast.unparse(body[0].iter) == "self.get_unused_ignores()"
            and ast.unparse(body[0].body[0]) == "node = _FakeNode(i + 1, line.index(IGNORE_COMMENT))"
            and ast.unparse(body[0].body[-1]) == "self.show_error(node, error_code=error_code, replacement=replacement, obey_ignore=False)"):
        _fail(su, "show_errors_for_unused_ignores: unexpected shape", fname)
    return "\n".join(out)


# ---------------------------------------------------------------------------
# C16: _apply_changes_to_lines, the add-ignores replacement, ITERATION_LIMIT

class _ListExpr:
    """list-of-lines / list-of-int expressions of _apply_changes_to_lines."""

    def __init__(self, fname):
        self.fname = fname

    def nat(self, e, env):
        if isinstance(e, ast.Name) and env.get(e.id) == "nat":
            return e.id
        if isinstance(e, ast.Constant) and isinstance(e.value, int) and not isinstance(e.value, bool) and e.value >= 0:
            return str(e.value)
        if isinstance(e, ast.BinOp) and isinstance(e.op, ast.Sub):
            return f"({self.nat(e.left, env)} - {self.nat(e.right, env)})"
        if isinstance(e, ast.Call) and isinstance(e.func, ast.Name) and e.func.id == "max" and len(e.args) == 1 and not e.keywords:
            return f"(list_max {self.lst(e.args[0], env)})"
        _fail(e, "unsupported index expression", self.fname)

    def lst(self, e, env):
        if isinstance(e, ast.Name) and env.get(e.id) in ("lines", "nats"):
            return e.id
        if isinstance(e, ast.Attribute) and isinstance(e.value, ast.Name) and env.get(e.value.id) == "change":
            if e.attr == "linenos_to_delete":
                return f"(r_del {e.value.id})"
        if isinstance(e, ast.Call) and isinstance(e.func, ast.Name):
            if e.func.id == "list" and len(e.args) == 1 and not e.keywords:
                return self.lst(e.args[0], env)
            if (e.func.id == "sorted" and len(e.args) == 1 and len(e.keywords) == 1 and e.keywords[0].arg == "reverse"
                    and isinstance(e.keywords[0].value, ast.Constant) and e.keywords[0].value.value is True):
                return f"(sort_desc {self.lst(e.args[0], env)})"
        if isinstance(e, ast.List) and e.elts and all(isinstance(x, ast.Starred) for x in e.elts):
            return "(" + " ++ ".join(self.lst(x.value, env) for x in e.elts) + ")"
        if isinstance(e, ast.Subscript) and isinstance(e.slice, ast.Slice) and e.slice.step is None:
            sl = e.slice
            if sl.lower is None and sl.upper is not None:
                return f"(firstn {self.nat(sl.upper, env)} {self.lst(e.value, env)})"
            if sl.upper is None and sl.lower is not None:
                return f"(skipn {self.nat(sl.lower, env)} {self.lst(e.value, env)})"
        _fail(e, "unsupported list expression", self.fname)


def translate_apply(repo) -> str:
    fname = "node_visitor.py"
    nv = _module(repo, fname)
    lim = _toplevel_assign(nv, "ITERATION_LIMIT", fname)
    if not (isinstance(lim, ast.Constant) and isinstance(lim.value, int)):
        _fail(lim, "ITERATION_LIMIT is not an integer literal", fname)
    # the repeat loop of main(): `while cls._run_and_apply_changes(kwargs, autofix=True):` ... assert iteration <= ITERATION_LIMIT
    mainf = _find_method(nv, "BaseNodeVisitor", "main", fname)
    loops = [n for n in ast.walk(mainf) if isinstance(n, ast.While)]
    if not (len(loops) == 1 and ast.unparse(loops[0].test) == "cls._run_and_apply_changes(kwargs, autofix=True)"
            and any(isinstance(x, ast.Assert) and ast.unparse(x.test) == "iteration <= ITERATION_LIMIT" for x in loops[0].body)):
        raise TranslateError("node_visitor.py: main(): the repeat_until_no_errors loop changed shape")
    ap = _find_method(nv, "BaseNodeVisitor", "_apply_changes_to_lines", fname)
    ex = _ListExpr(fname)
    body = [s_ for s_ in ap.body if not (isinstance(s_, ast.Expr) and isinstance(s_.value, ast.Constant))]
    if not (len(body) == 3 and isinstance(body[0], ast.Assign) and ast.unparse(body[0].targets[0]) == "lines"
            and isinstance(body[1], ast.If) and ast.unparse(body[1].test) == "changes" and not body[1].orelse
            and isinstance(body[2], ast.Return) and ast.unparse(body[2].value) == "lines"):
        _fail(ap, "_apply_changes_to_lines: unexpected top-level shape", fname)
    env = {"input_lines": "lines"}
    out = [
        "(* GENERATED by harness/translate/lines.py from pyanalyze/node_visitor.py",
        "   (_apply_changes_to_lines, the add_ignores branch of show_error, ITERATION_LIMIT).  Do not edit. *)",
        "From Coq Require Import List Bool NArith ZArith Arith.",
        "Import ListNotations.",
        "Require Import PV.Lines.Text PV.Lines.Suppress PV.Lines.Fixer PV.Gen.Codes.",
        "",
        f"Definition iteration_limit : nat := {lim.value}.",
        "",
        "Definition apply_changes (changes : list replacement) (input_lines : file) : file :=",
        f"  let lines := {ex.lst(body[0].value, env)} in",
        "  match changes with",
        "  | [] => lines",
    ]
    env["lines"] = "lines"
    inner = body[1].body
    if not (len(inner) == 3 and ast.unparse(inner[0]) == "change = changes[0]" and ast.unparse(inner[1]) == "additions = change.lines_to_add"
            and isinstance(inner[2], ast.If) and ast.unparse(inner[2].test) == "additions is not None" and not inner[2].orelse):
        _fail(body[1], "_apply_changes_to_lines: unexpected `if changes:` body", fname)
    out += ["  | change :: _ =>", "      match r_add change with", "      | None => lines", "      | Some additions =>"]
    env.update(change="change", additions="lines")
    loop_seen = False
    for st_ in inner[2].body:
        if isinstance(st_, ast.Assign) and len(st_.targets) == 1 and isinstance(st_.targets[0], ast.Name):
            tgt = st_.targets[0].id
            if tgt == "max_line":
                out.append(f"          let max_line := {ex.nat(st_.value, env)} in")
                env[tgt] = "nat"
            elif tgt in ("lines_to_remove",):
                out.append(f"          let {tgt} := {ex.lst(st_.value, env)} in")
                env[tgt] = "nats"
            elif tgt == "lines":
                out.append(f"          let lines := {ex.lst(st_.value, env)} in")
            else:
                _fail(st_, "_apply_changes_to_lines: unexpected assignment", fname)
        elif isinstance(st_, ast.For) and not st_.orelse and isinstance(st_.target, ast.Name) and len(st_.body) == 1 and isinstance(st_.body[0], ast.Delete):
            d = st_.body[0]
            if not (len(d.targets) == 1 and isinstance(d.targets[0], ast.Subscript) and isinstance(d.targets[0].value, ast.Name) and d.targets[0].value.id == "lines"):
                _fail(st_, "_apply_changes_to_lines: unexpected loop body", fname)
            env2 = dict(env)
            env2[st_.target.id] = "nat"
            out.append(f"          fold_left (fun lines {st_.target.id} => del_at {ex.nat(d.targets[0].slice, env2)} lines) {ex.lst(st_.iter, env)} lines")
            loop_seen = True
        else:
            _fail(st_, "_apply_changes_to_lines: unexpected statement", fname)
    if not loop_seen or not isinstance(inner[2].body[-1], ast.For):
        raise TranslateError("node_visitor.py: _apply_changes_to_lines: the deletion loop must be the last statement")
    out += ["      end", "  end.", ""]

    # ---- show_error: the add_ignores branch (statement pins) -------------
    se = _find_method(nv, "BaseNodeVisitor", "show_error", fname)
    blk = [s_ for s_ in se.body if isinstance(s_, ast.If) and ast.unparse(s_.test) == "lineno is not None and self._changes_for_fixer is not None"]
    if len(blk) != 1 or blk[0].orelse:
        raise TranslateError("node_visitor.py: show_error: the fixer block was not found")
    b = blk[0].body
    if not (len(b) == 2 and isinstance(b[0], ast.If) and ast.unparse(b[0].test) == "self.add_ignores and obey_ignore"
            and ast.unparse(b[1]) == "self._changes_for_fixer[self.filename].append(replacement)"):
        _fail(blk[0], "show_error: unexpected fixer block (expected `if self.add_ignores and obey_ignore:`)", fname)
    # the branch: four assignments, then `if <condition>: replacement = <trailing> else: replacement = <own line>`
    stmts = b[0].body
    want_head = [
        "this_line = lines[lineno - 1]",
        "indentation = analysis_lib.get_indentation(this_line)",
        "if error_code is not None:\n    ignore = f'{ignore_comment}[{error_code.name}]'\nelse:\n    ignore = ignore_comment",
        "prev_line = lines[lineno - 2] if lineno >= 2 else ''",
    ]
    if [ast.unparse(x) for x in stmts[:4]] != want_head or len(stmts) != 5 or not isinstance(stmts[4], ast.If):
        raise TranslateError("node_visitor.py: show_error: the add_ignores branch changed:\n" + "\n".join(ast.unparse(x) for x in stmts))
    choice = stmts[4]
    REPL = {
        "replacement = Replacement([lineno], [f'{this_line.rstrip()}  {ignore}\\n'], str(e))":
            "mk_repl [lineno] (Some [rstrip this_line ++ [32%N; 32%N] ++ ignore])",
        "replacement = Replacement([lineno], ['{}{}\\n'.format(' ' * indentation, ignore), this_line], str(e))":
            "mk_repl [lineno] (Some [repeat space_char indentation ++ ignore; this_line])",
    }
    if not (len(choice.body) == 1 and len(choice.orelse) == 1 and ast.unparse(choice.body[0]) in REPL and ast.unparse(choice.orelse[0]) in REPL):
        raise TranslateError("node_visitor.py: show_error: unexpected replacement construction in the add_ignores branch:\n" + ast.unparse(choice))
    ATOMS = {
        "this_line.rstrip().endswith('\\\\')": "ends_backslash (rstrip this_line)",
        "prev_line.rstrip().endswith('\\\\')": "ends_backslash (rstrip prev_line)",
        "prev_line.strip().startswith(ignore_comment)": "prefix IGNORE_COMMENT (strip prev_line)",
        "indentation == 0": "Nat.eqb indentation 0",
        "all((line.startswith('#') for line in lines[:lineno - 1]))": "forallb (fun line => prefix [35%N] line) (firstn (lineno - 1) lines)",
    }

    def cond(e):
        if isinstance(e, ast.BoolOp):
            op = " || " if isinstance(e.op, ast.Or) else " && "
            return "(" + op.join(cond(v) for v in e.values) + ")"
        if isinstance(e, ast.UnaryOp) and isinstance(e.op, ast.Not):
            return f"(negb {cond(e.operand)})"
        src = ast.unparse(e)
        if src in ATOMS:
            return "(" + ATOMS[src] + ")"
        _fail(e, "show_error: unsupported condition in the add_ignores branch", fname)

    add_ignore_def = [
        "(* show_error, `if self.add_ignores and obey_ignore:` *)",
        "Definition add_ignore_repl (lines : file) (lineno : nat) (error_code : option N) : replacement :=",
        "  let this_line := py_index lines (Z.of_nat lineno - 1)%Z in",
        "  let indentation := get_indentation this_line in",
        "  let ignore := match error_code with Some c0 => tag IGNORE_COMMENT code_name c0 | None => IGNORE_COMMENT end in",
        "  let prev_line := if 2 <=? lineno then py_index lines (Z.of_nat lineno - 2)%Z else [] in",
        f"  if {cond(choice.test)}",
        f"  then {REPL[ast.unparse(choice.body[0])]}",
        f"  else {REPL[ast.unparse(choice.orelse[0])]}.",
        "",
    ]
    al = _module(repo, "analysis_lib.py")
    gi = [n for n in al.body if isinstance(n, ast.FunctionDef) and n.name == "get_indentation"]
    gi_body = [ast.unparse(x) for x in gi[0].body if not (isinstance(x, ast.Expr) and isinstance(x.value, ast.Constant))] if gi else None
    if gi_body != ["if len(line.lstrip()) == 0:\n    return 0", "return len(line) - len(line.lstrip())"]:
        raise TranslateError(f"analysis_lib.py: get_indentation changed: {gi_body}")
    out += [
        "(* analysis_lib.get_indentation *)",
        "Definition get_indentation (line : line) : nat :=",
        "  if Nat.eqb (length (lstrip line)) 0 then 0 else length line - length (lstrip line).",
        "",
    ]
    out += add_ignore_def
    return "\n".join(out)


def gen_files(repo) -> dict:
    return {"Codes.v": translate_codes(repo), "SuppressGen.v": translate_functions(repo)}


def gen_files_c16(repo) -> dict:
    from . import astcopy

    return {"Codes.v": translate_codes(repo), "ApplyGen.v": translate_apply(repo), "CopyGen.v": astcopy.translate_copy(repo), "RangeGen.v": astcopy.translate_range(repo)}


if __name__ == "__main__":
    import sys

    r = sys.argv[1] if len(sys.argv) > 1 else "/repo"
    for k, v in {**gen_files(r), **gen_files_c16(r)}.items():
        print("(* ==== " + k + " ==== *)")
        print(v)
