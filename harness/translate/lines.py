"""Translator for the line/file family (C11, C16):

  pyanalyze/node_visitor.py, pyanalyze/error_code.py, pyanalyze/name_check_visitor.py
      -> coq/theories/Gen/Codes.v      (constants: IGNORE_COMMENT, the error-code registry,
                                        DISABLED_BY_DEFAULT, the codes of the two final passes)
      -> coq/theories/Gen/SuppressGen.v (functions: the per-line ignore test of show_error,
                                        has_file_level_ignore, get_unused_ignores, the bare-ignore
                                        line filter, _apply_changes_to_lines, the add-ignores
                                        replacement) translated statement by statement

Fail-closed: every statement / expression must have exactly the shape the
translator understands, otherwise TranslateError (reported by the check as a
broken obligation).
"""
import ast
from pathlib import Path


class TranslateError(Exception):
    pass


def _fail(node, why, fname="?"):
    raise TranslateError(f"{fname}:{getattr(node, 'lineno', '?')}: {why}: {ast.dump(node)[:300] if isinstance(node, ast.AST) else node}")


def chars(s: str) -> str:
    return "[" + "; ".join(f"{ord(c)}%N" for c in s) + "]"


def _module(repo, rel):
    p = Path(repo) / "pyanalyze" / rel
    return ast.parse(p.read_text(), str(p))


def _toplevel_assign(mod, name, fname):
    hits = [n for n in mod.body if isinstance(n, ast.Assign) and len(n.targets) == 1 and isinstance(n.targets[0], ast.Name) and n.targets[0].id == name]
    if len(hits) != 1:
        raise TranslateError(f"{fname}: expected exactly one top-level assignment to {name}, found {len(hits)}")
    return hits[0].value


def _find_method(mod, cls, meth, fname):
    for n in mod.body:
        if isinstance(n, ast.ClassDef) and n.name == cls:
            hits = [m for m in n.body if isinstance(m, ast.FunctionDef) and m.name == meth]
            if len(hits) == 1:
                return hits[0]
    raise TranslateError(f"{fname}: method {cls}.{meth} not found exactly once")


def read_codes(repo):
    """-> (ignore_comment, [names], {set name: [names]})"""
    nv = _module(repo, "node_visitor.py")
    ign = _toplevel_assign(nv, "IGNORE_COMMENT", "node_visitor.py")
    if not (isinstance(ign, ast.Constant) and isinstance(ign.value, str)):
        _fail(ign, "IGNORE_COMMENT is not a string literal", "node_visitor.py")
    ec = _module(repo, "error_code.py")
    reg = _toplevel_assign(ec, "ErrorCode", "error_code.py")
    if not (isinstance(reg, ast.Call) and isinstance(reg.func, ast.Name) and reg.func.id == "ErrorRegistry" and len(reg.args) == 1 and isinstance(reg.args[0], ast.List) and not reg.keywords):
        _fail(reg, "ErrorCode is not ErrorRegistry([...])", "error_code.py")
    names = []
    for e in reg.args[0].elts:
        if not (isinstance(e, ast.Call) and isinstance(e.func, ast.Name) and e.func.id == "Error" and len(e.args) == 2 and isinstance(e.args[0], ast.Constant) and isinstance(e.args[0].value, str)):
            _fail(e, "registry entry is not Error(\"name\", ...)", "error_code.py")
        names.append(e.args[0].value)
    sets = {}
    for sname in ("DISABLED_IN_TESTS", "DISABLED_BY_DEFAULT"):
        v = _toplevel_assign(ec, sname, "error_code.py")
        if not isinstance(v, ast.Set):
            _fail(v, f"{sname} is not a set display", "error_code.py")
        members = []
        for e in v.elts:
            if isinstance(e, ast.Starred) and isinstance(e.value, ast.Name) and e.value.id in sets:
                members += sets[e.value.id]
            elif isinstance(e, ast.Attribute) and isinstance(e.value, ast.Name) and e.value.id == "ErrorCode":
                if e.attr not in names:
                    _fail(e, "unknown error code", "error_code.py")
                members.append(e.attr)
            else:
                _fail(e, f"unsupported member of {sname}", "error_code.py")
        sets[sname] = members
    return ign.value, names, sets


def tail_codes(repo):
    """The error codes NameCheckVisitor.check passes to the two final passes, in call order."""
    ncv = _module(repo, "name_check_visitor.py")
    chk = _find_method(ncv, "NameCheckVisitor", "check", "name_check_visitor.py")
    calls = []
    for n in ast.walk(chk):
        if isinstance(n, ast.Call) and isinstance(n.func, ast.Attribute) and n.func.attr in ("show_errors_for_unused_ignores", "show_errors_for_bare_ignores"):
            if not (isinstance(n.func.value, ast.Name) and n.func.value.id == "self" and len(n.args) == 1 and not n.keywords and isinstance(n.args[0], ast.Attribute) and isinstance(n.args[0].value, ast.Name) and n.args[0].value.id == "ErrorCode"):
                _fail(n, "unexpected call shape of a final pass", "name_check_visitor.py")
            calls.append((n.lineno, n.func.attr, n.args[0].attr))
    calls.sort()
    if [c[1] for c in calls] != ["show_errors_for_unused_ignores", "show_errors_for_bare_ignores"]:
        raise TranslateError(f"name_check_visitor.py: NameCheckVisitor.check no longer calls the unused pass then the bare pass exactly once each: {calls}")
    return calls[0][2], calls[1][2]


def translate_codes(repo) -> str:
    ign, names, sets = read_codes(repo)
    unused, bare = tail_codes(repo)
    idx = {n: i for i, n in enumerate(names)}
    out = [
        "(* GENERATED by harness/translate/lines.py from pyanalyze/node_visitor.py,",
        "   pyanalyze/error_code.py and pyanalyze/name_check_visitor.py.  Do not edit. *)",
        "From Coq Require Import List NArith.",
        "Import ListNotations.",
        "",
        f"(* IGNORE_COMMENT = {ign!r} *)",
        f"Definition IGNORE_COMMENT : list N := {chars(ign)}.",
        "",
        "(* the ErrorCode registry, in registration order: code c <-> nth c code_names *)",
        "Definition code_names : list (list N) := [",
        ";\n".join(f"  (* {i} {n} *) {chars(n)}" for i, n in enumerate(names)),
        "].",
        "Definition code_name (c : N) : list N := nth (N.to_nat c) code_names [].",
        f"Definition n_codes : N := {len(names)}%N.",
        "",
        "Definition disabled_in_tests : list N := [" + "; ".join(f"{idx[n]}%N" for n in sets["DISABLED_IN_TESTS"]) + "].",
        "Definition disabled_by_default : list N := [" + "; ".join(f"{idx[n]}%N" for n in sets["DISABLED_BY_DEFAULT"]) + "].",
        "",
        f"(* NameCheckVisitor.check: show_errors_for_unused_ignores(ErrorCode.{unused}); show_errors_for_bare_ignores(ErrorCode.{bare}) *)",
        f"Definition unused_ignore_code : N := {idx[unused]}%N.",
        f"Definition bare_ignore_code : N := {idx[bare]}%N.",
        "",
    ]
    return "\n".join(out)


def gen_files(repo) -> dict:
    return {"Codes.v": translate_codes(repo)}


if __name__ == "__main__":
    import sys

    print(translate_codes(sys.argv[1] if len(sys.argv) > 1 else "/repo"))
