"""Translator for C02, part 2: writes coq/theories/Gen/NarrowPreds.v.

* decision skeletons, translated statement by statement into Gallina over abstract boolean
  inputs (fail-closed: any statement / expression outside the expected vocabulary aborts):
    predicates.IsAssignablePredicate.__call__            -> gen_isassignable
    patma.LenPredicate.__call__                          -> gen_lenpat
    stacked_scopes.Constraint.apply_to_value, branches
      is_truthy / is_value_object / add_annotation       -> gen_truthy / gen_valueobject / gen_addannot
    predicates._OPERATOR (EqualsPredicate)                -> gen_operator
    the order of the constraint-type dispatch chain       -> gen_dispatch
* fingerprints: the ast of functions the model transcribes by hand
  (OrConstraint.apply and its helpers, AndConstraint/OrConstraint.make, _constrain_value,
   constrain_value, Constraint.apply_to_values, the remaining apply_to_value branches)
  is compared with the dump recorded in harness/translate/narrowpreds_pinned.json when the model
  was written; a difference aborts the translator (broken obligation), even if harmless.
Properties/C02.v proves the generated skeletons equal to the model's."""
from __future__ import annotations

import ast
import hashlib
import json
from pathlib import Path


class TranslateError(Exception):
    pass


def _expect(c, msg):
    if not c:
        raise TranslateError(msg)


def _find(tree, cls, fn):
    for node in tree.body:
        if isinstance(node, ast.ClassDef) and node.name == cls:
            for st in node.body:
                if isinstance(st, ast.FunctionDef) and st.name == fn:
                    return st
    raise TranslateError(f"{cls}.{fn} not found")


def _body(fn):
    return [s for s in fn.body if not (isinstance(s, ast.Expr) and isinstance(s.value, ast.Constant) and isinstance(s.value.value, str))]


class Skel:
    """Python subset -> Gallina.  atoms: unparsed expression text -> Gallina term (booleans / Z);
    results: unparsed returned/yielded expression -> constructor; names assigned in the body become lets."""

    def __init__(self, atoms, results, default=None, where=""):
        self.atoms, self.results, self.default, self.where = atoms, results, default, where

    def expr(self, e, env):
        src = ast.unparse(e)
        if src in env:
            return env[src]
        if src in self.atoms:
            return self.atoms[src]
        if isinstance(e, ast.UnaryOp) and isinstance(e.op, ast.Not):
            return f"(negb {self.expr(e.operand, env)})"
        if isinstance(e, ast.BoolOp):
            op = "andb" if isinstance(e.op, ast.And) else "orb"
            out = self.expr(e.values[0], env)
            for v in e.values[1:]:
                out = f"({op} {out} {self.expr(v, env)})"
            return out
        if isinstance(e, ast.Compare) and len(e.ops) == 1:
            ops = {ast.GtE: "Z.geb", ast.Gt: "Z.gtb", ast.LtE: "Z.leb", ast.Lt: "Z.ltb", ast.Eq: "Z.eqb"}
            if type(e.ops[0]) in ops:
                return f"({ops[type(e.ops[0])]} {self.expr(e.left, env)} {self.expr(e.comparators[0], env)})"
        raise TranslateError(f"{self.where}: expression outside the vocabulary: {src}")

    def result(self, e):
        src = "None" if e is None else ast.unparse(e)
        _expect(src in self.results, f"{self.where}: unexpected result expression: {src}")
        return self.results[src]

    def stmts(self, sts, env):
        if not sts:
            _expect(self.default is not None, f"{self.where}: control falls off the end")
            return self.default
        st, rest = sts[0], sts[1:]
        if isinstance(st, ast.Return):
            return self.result(st.value)
        if isinstance(st, ast.Expr) and isinstance(st.value, ast.Yield):
            _expect(not rest or True, "")
            return self.result(st.value.value)
        if isinstance(st, ast.Assign) and len(st.targets) == 1 and isinstance(st.targets[0], ast.Name):
            name = st.targets[0].id
            src = ast.unparse(st.value)
            if src in self.atoms and self.atoms[src] is None:
                return self.stmts(rest, env)  # a binding the atoms already name (e.g. value_len = ...)
            env2 = dict(env)
            env2[name] = self.expr(st.value, env)
            return self.stmts(rest, env2)
        if isinstance(st, ast.If):
            t = self.expr(st.test, env)
            a = self.stmts(list(st.body) + list(rest), env)
            b = self.stmts(list(st.orelse) + list(rest), env)
            return f"(if {t} then {a} else {b})"
        raise TranslateError(f"{self.where}: statement outside the vocabulary: {ast.unparse(st)[:80]}")


def _branches(fn):
    """The if/elif chain of Constraint.apply_to_value on self.constraint_type: [(name, body)]."""
    chain = None
    for st in _body(fn):
        if isinstance(st, ast.If) and "self.constraint_type == ConstraintType." in ast.unparse(st.test):
            chain = st
            break
    _expect(chain is not None, "apply_to_value: dispatch chain not found")
    out = []
    while True:
        t = ast.unparse(chain.test)
        _expect(t.startswith("self.constraint_type == ConstraintType."), f"apply_to_value: unexpected test {t}")
        out.append((t.split(".")[-1], chain.body))
        if len(chain.orelse) == 1 and isinstance(chain.orelse[0], ast.If):
            chain = chain.orelse[0]
        else:
            _expect(len(chain.orelse) == 1 and isinstance(chain.orelse[0], ast.Assert), "apply_to_value: chain must end in `assert False`")
            return out


PINNED = Path(__file__).with_name("narrowpreds_pinned.json")


def _dump(node):
    return hashlib.sha1(ast.dump(node, annotate_fields=False, include_attributes=False).encode()).hexdigest()[:16]


def pinned_items(repo):
    root = Path(repo) / "pyanalyze"
    ss = ast.parse((root / "stacked_scopes.py").read_text())
    pr = ast.parse((root / "predicates.py").read_text())
    items = {}
    # (EqualsPredicate / InPredicate.__call__, the invert methods, AndConstraint.apply, NullConstraint.apply and
    #  Constraint.apply are translated by narrowsrc.py since phase 3 and no longer pinned)
    def _has(cls, fn):
        try:
            _find(ss, cls, fn)
            return True
        except TranslateError:
            return False

    for cls, fns in [("AndConstraint", ["make"]), ("OrConstraint", ["apply", "_apply", "make", "_constraint_from_list", "_group_constraints"]),
                     ("Constraint", ["apply_to_values", "_apply_compound"])]:
        fns = [f for f in fns if _has(cls, f)]
        for fn in fns:
            items[f"stacked_scopes.{cls}.{fn}"] = _find(ss, cls, fn)
    for node in ss.body:
        if isinstance(node, ast.FunctionDef) and node.name in ("_constrain_value", "constrain_value", "_drop_repeated", "_memoized_apply", "_memoized_invert"):
            items[f"stacked_scopes.{node.name}"] = node
    for name, body in _branches(_find(ss, "Constraint", "apply_to_value")):
        if name in ("predicate", "one_of", "all_of"):  # is_instance / is_value are translated by narrowsrc.py since phase 4
            items[f"stacked_scopes.Constraint.apply_to_value[{name}]"] = ast.Module(body=body, type_ignores=[])
    return {k: _dump(v) for k, v in items.items()}


def translate(repo: str) -> str:
    root = Path(repo) / "pyanalyze"
    pr = ast.parse((root / "predicates.py").read_text())
    pa = ast.parse((root / "patma.py").read_text())
    ss = ast.parse((root / "stacked_scopes.py").read_text())
    out = ["(* GENERATED by harness/translate/narrowpreds.py from predicates.py, patma.py, stacked_scopes.py. Do not edit. *)",
           "From Coq Require Import ZArith List Bool.", "Import ListNotations.", "Require Import PV.Narrow.Base PV.Narrow.Model.", ""]

    # IsAssignablePredicate.__call__
    fn = _find(pr, "IsAssignablePredicate", "__call__")
    sk = Skel({"is_overlapping(self.pattern_value, value, self.ctx)": "ov",
               "self.pattern_value.is_assignable(value, self.ctx)": "asg",
               "is_universally_assignable(value, unannotate(self.pattern_value))": "univ",
               "positive": "positive", "self.positive_only": "po"},
              {"None": "RDrop", "value": "RValue", "self.pattern_value": "RPattern"}, where="IsAssignablePredicate.__call__")
    out.append("Definition gen_isassignable (ov asg univ po positive : bool) : pres :=\n  " + sk.stmts(_body(fn), {}) + ".")

    # LenPredicate.__call__
    fn = _find(pa, "LenPredicate", "__call__")
    body = _body(fn)
    ret = None
    for n in ast.walk(fn):
        if isinstance(n, ast.Return) and n.value is not None and ast.unparse(n.value).startswith("SequenceValue(tuple,"):
            ret = ast.unparse(n.value)
    _expect(ret == "SequenceValue(tuple, [(False, arg) for _ in range(self.expected_length)])", f"LenPredicate: unexpected tuple construction {ret}")
    sk = Skel({"len_of_value(value)": None, "unannotate(value)": None, "cleaned.get_generic_arg_for_type(tuple, self.ctx, 0)": None,
               "isinstance(value_len, KnownValue) and isinstance(value_len.val, int)": "known",
               "value_len.val": "k", "self.expected_length": "n", "self.has_star": "star", "positive": "positive",
               "isinstance(cleaned, TypedValue)": "is_typed", "cleaned.typ is tuple": "is_tuple"},
              {"None": "RDrop", "value": "RValue", ret: "RPattern"}, where="LenPredicate.__call__")
    out.append("Definition gen_lenpat (known : bool) (k n : Z) (star positive is_typed is_tuple : bool) : pres :=\n  " + sk.stmts(body, {}) + ".")

    # Constraint.apply_to_value
    fn = _find(ss, "Constraint", "apply_to_value")
    br = _branches(fn)
    names = [n for n, _ in br]
    out.append("Definition gen_dispatch : list ctype := [" + "; ".join("T_" + n for n in names) + "].")
    d = dict(br)
    for need in ("is_truthy", "is_value_object", "add_annotation"):
        _expect(need in d, f"apply_to_value: no branch for {need}")
    sk = Skel({"get_boolability(inner_value)": None, "boolability.is_safely_false()": "sf", "boolability.is_safely_true()": "st", "self.positive": "positive"},
              {"value": "RValue"}, default="RDrop", where="apply_to_value[is_truthy]")
    out.append("Definition gen_truthy (sf st positive : bool) : pres :=\n  " + sk.stmts(d["is_truthy"], {}) + ".")
    sk = Skel({"self.positive": "positive"}, {"value": "RValue", "self.value": "RPattern"}, where="apply_to_value[is_value_object]")
    out.append("Definition gen_valueobject (positive : bool) : pres :=\n  " + sk.stmts(d["is_value_object"], {}) + ".")
    sk = Skel({"self.positive": "positive"}, {"value": "RValue", "annotate_value(value, [self.value])": "RPattern"}, where="apply_to_value[add_annotation]")
    out.append("Definition gen_addannot (positive : bool) : pres :=\n  " + sk.stmts(d["add_annotation"], {}) + ".")

    # _OPERATOR
    table = None
    for node in pr.body:
        if isinstance(node, ast.Assign) and isinstance(node.targets[0], ast.Name) and node.targets[0].id == "_OPERATOR":
            table = node.value
    _expect(isinstance(table, ast.Dict), "_OPERATOR not found")
    ops = {"operator.is_": "OIs", "operator.is_not": "OIsNot", "operator.eq": "OEqual", "operator.ne": "ONotEqual"}
    rows = {}
    for k, v in zip(table.keys, table.values):
        key = ast.literal_eval(k)
        _expect(isinstance(key, tuple) and len(key) == 2 and ast.unparse(v) in ops, "_OPERATOR: unexpected entry")
        rows[key] = ops[ast.unparse(v)]
    _expect(set(rows) == {(a, b) for a in (True, False) for b in (True, False)}, "_OPERATOR: keys changed")
    out.append("Definition gen_operator (positive use_is : bool) : eqop :=\n  match positive, use_is with\n" +
               "".join(f"  | {str(a).lower()}, {str(b).lower()} => {rows[(a, b)]}\n" for a in (True, False) for b in (True, False)) + "  end.")

    # fingerprints
    cur = pinned_items(repo)
    _expect(PINNED.exists(), f"{PINNED} missing")
    want = json.loads(PINNED.read_text())
    diff = sorted(k for k in set(cur) | set(want) if cur.get(k) != want.get(k))
    _expect(not diff, "source of hand-transcribed functions changed since the model was written: " + ", ".join(diff))
    out.append(f"Definition gen_pinned_functions : nat := {len(cur)}.")
    return "\n".join(out) + "\n"
