"""Translator for C02: writes coq/theories/Gen/NarrowTable.v.

Two parts, both fail-closed:
 * code  — pyanalyze/boolability.py is walked with `ast`: the Boolability enum
           (names, values), _TRUE_BOOLABILITIES, _FALSE_BOOLABILITIES and the
           bodies of is_safely_true / is_safely_false must have exactly the
           expected shape; they are emitted as Gallina definitions.
 * data  — for every class of the universe (harness/c02_universe.py) the running
           implementation is asked for TypeObject.base_classes / artificial_bases
           (Checker().make_type_object), inspect.getmro, _get_type_boolability
           (both is_exact modes, and for the metaclass), the enum members, and
           name_check_visitor.AST_TO_REVERSE for the six ordering operators.
Properties/C02.v proves that these generated tables equal the ones of the
hand-written model (Narrow/Base.v, Narrow/Model.v)."""
from __future__ import annotations

import ast
from pathlib import Path


class TranslateError(Exception):
    pass


BOOLABS = [
    "erroring_bool",
    "boolable",
    "value_always_false_mutable",
    "value_always_true_mutable",
    "value_always_false",
    "value_always_true",
    "type_always_true",
]


def _expect(cond, msg):
    if not cond:
        raise TranslateError(msg)


def _boolab_attr(node):
    _expect(
        isinstance(node, ast.Attribute) and isinstance(node.value, ast.Name) and node.value.id == "Boolability" and node.attr in BOOLABS,
        f"expected Boolability.<member>, got {ast.dump(node)}",
    )
    return node.attr


def translate_code(repo: str) -> str:
    src = (Path(repo) / "pyanalyze" / "boolability.py").read_text()
    tree = ast.parse(src)
    members = None
    safely_true = safely_false = None
    sets = {}
    for node in tree.body:
        if isinstance(node, ast.ClassDef) and node.name == "Boolability":
            members = {}
            for st in node.body:
                if isinstance(st, ast.Assign):
                    _expect(len(st.targets) == 1 and isinstance(st.targets[0], ast.Name), "enum member target")
                    _expect(isinstance(st.value, ast.Constant) and isinstance(st.value.value, int), "enum member value")
                    members[st.targets[0].id] = st.value.value
                elif isinstance(st, ast.Expr) and isinstance(st.value, ast.Constant) and isinstance(st.value.value, str):
                    continue  # docstring
                elif isinstance(st, ast.FunctionDef) and st.name in ("is_safely_true", "is_safely_false"):
                    body = [b for b in st.body if not (isinstance(b, ast.Expr) and isinstance(b.value, ast.Constant))]
                    _expect(len(body) == 1 and isinstance(body[0], ast.Return), f"{st.name}: single return expected")
                    r = body[0].value
                    _expect(isinstance(r, ast.Compare) and len(r.ops) == 1 and isinstance(r.left, ast.Name) and r.left.id == "self", f"{st.name}: self <op> ... expected")
                    if st.name == "is_safely_true":
                        _expect(isinstance(r.ops[0], ast.In) and isinstance(r.comparators[0], ast.Name), "is_safely_true: `self in <set>`")
                        safely_true = r.comparators[0].id
                    else:
                        _expect(isinstance(r.ops[0], ast.Is), "is_safely_false: `self is Boolability.x`")
                        safely_false = _boolab_attr(r.comparators[0])
                else:
                    raise TranslateError(f"unexpected statement in Boolability: {ast.dump(st)[:120]}")
        elif isinstance(node, ast.Assign) and len(node.targets) == 1 and isinstance(node.targets[0], ast.Name) and node.targets[0].id in ("_TRUE_BOOLABILITIES", "_FALSE_BOOLABILITIES"):
            _expect(isinstance(node.value, ast.Set), "boolability set literal expected")
            sets[node.targets[0].id] = [_boolab_attr(e) for e in node.value.elts]
    _expect(members is not None, "class Boolability not found")
    _expect(sorted(members) == sorted(BOOLABS), f"Boolability members changed: {sorted(members)}")
    _expect(safely_true in sets, "is_safely_true does not test membership in a known set")
    _expect(safely_false is not None, "is_safely_false not found")
    _expect(set(sets) == {"_TRUE_BOOLABILITIES", "_FALSE_BOOLABILITIES"}, "boolability sets not found")
    out = []
    out.append("Definition gen_boolab_value (b : boolab) : nat :=\n  match b with\n" + "".join(f"  | {m} => {members[m]}\n" for m in BOOLABS) + "  end.")
    # sets are unordered: emit in enum-value order
    def ordered(l):
        return sorted(set(l), key=lambda m: members[m])
    out.append("Definition gen_true_boolabs : list boolab := [" + "; ".join(ordered(sets[safely_true])) + "].")
    out.append("Definition gen_false_boolabs : list boolab := [" + "; ".join(ordered(sets["_FALSE_BOOLABILITIES"])) + "].")
    out.append(f"Definition gen_safely_false : boolab := {safely_false}.")
    return "\n".join(out)


def translate_data() -> str:
    import inspect

    import c02_universe as U
    from pyanalyze.boolability import Boolability, _get_type_boolability
    from pyanalyze.checker import Checker
    from pyanalyze import name_check_visitor as ncv

    checker = Checker()
    rev = {v: k for k, v in U.CLASSES.items()}

    def names(classes):
        ns = [rev[c] for c in classes if c in rev]
        return "[" + "; ".join(U.COQ_CLS[n] for n in sorted(ns, key=U.CLS_ORDER.index)) + "]"

    def table(name, ty, fn):
        return f"Definition {name} (c : cls) : {ty} :=\n  match c with\n" + "".join(f"  | {U.COQ_CLS[n]} => {fn(U.CLASSES[n])}\n" for n in U.CLS_ORDER) + "  end."

    def boolab(b):
        _expect(isinstance(b, Boolability) and b.name in BOOLABS, f"unexpected boolability {b}")
        return b.name

    out = []
    # every universe class b with issubclass(c, b) (real issubclass, ABC registration included)
    out.append(table("gen_mro", "list cls", lambda c: names([b for b in U.CLASSES.values() if issubclass(c, b)])))
    out.append(table("gen_base_classes", "list cls", lambda c: names(checker.make_type_object(c).base_classes)))
    out.append(table("gen_art_bases", "list cls", lambda c: names(checker.make_type_object(c).artificial_bases)))
    out.append(table("gen_type_boolab", "boolab", lambda c: boolab(_get_type_boolability(c))))
    out.append(table("gen_type_boolab_exact", "boolab", lambda c: boolab(_get_type_boolability(c, is_exact=True))))
    out.append(table("gen_meta_boolab", "boolab", lambda c: boolab(_get_type_boolability(type(c), is_exact=True))))
    def meta_name(c):
        # the nearest universe class in the metaclass's MRO (ABCMeta is projected to type)
        for m in type(c).__mro__:
            if m in rev:
                return U.COQ_CLS[rev[m]]
        raise TranslateError(f"metaclass {type(c)} of {c} is outside the universe")

    out.append(table("gen_meta", "cls", meta_name))
    import enum

    out.append(table("gen_enum_size", "nat", lambda c: len(list(c)) if issubclass(c, enum.Enum) else 0))
    ops = {ast.Eq: "OpEq", ast.NotEq: "OpNe", ast.Lt: "OpLt", ast.LtE: "OpLe", ast.Gt: "OpGt", ast.GtE: "OpGe"}
    lines = []
    for k, v in ops.items():
        r = ncv.AST_TO_REVERSE.get(k)
        _expect(r in ops, f"AST_TO_REVERSE[{k.__name__}] unexpected: {r}")
        lines.append(f"  | {v} => {ops[r]}\n")
    out.append("Definition gen_neg_op (op : cmpop) : cmpop :=\n  match op with\n" + "".join(lines) + "  end.")
    # the whole COMPARATOR_TO_OPERATOR table, evaluated: (operator code, a, bs, positive operator's result, negative
    # operator's result); bs = [b] for the binary comparisons, the container for in / not in
    codes = [ast.Eq, ast.NotEq, ast.Lt, ast.LtE, ast.Gt, ast.GtE, ast.Is, ast.IsNot, ast.In, ast.NotIn]
    _expect(set(ncv.COMPARATOR_TO_OPERATOR) == set(codes), f"COMPARATOR_TO_OPERATOR keys: {sorted(k.__name__ for k in ncv.COMPARATOR_TO_OPERATOR)}")
    rows = []
    for code, k in enumerate(codes):
        pos, neg, _ = ncv.COMPARATOR_TO_OPERATOR[k]
        samples = [(a, (b,)) for a in (0, 1, 2, 3) for b in (0, 1, 2)] if code < 8 else [(a, bs) for a in (0, 1, 2, 3) for bs in ((), (1, 2), (0,), (2, 3))]
        for a, bs in samples:
            arg = bs[0] if code < 8 else bs
            p, n = pos(a, arg), neg(a, arg)
            _expect(isinstance(p, bool) and isinstance(n, bool), f"COMPARATOR_TO_OPERATOR[{k.__name__}] does not return a bool")
            rows.append(f"({code}%N, {a}%Z, [{'; '.join(str(b) + '%Z' for b in bs)}], {str(p).lower()}, {str(n).lower()})")
    out.append("Definition gen_cmp_rows : list (N * Z * list Z * bool * bool) :=\n  [" + ";\n   ".join(rows) + "].")
    return "\n".join(out)


HEADER = """(* GENERATED by harness/translate/narrowtable.py from pyanalyze/boolability.py (ast)
   and from the running implementation (class table data). Do not edit. *)
From Coq Require Import List ZArith NArith.
Import ListNotations.
Require Import PV.Narrow.Base PV.Narrow.Model.
"""


def translate(repo: str) -> str:
    return HEADER + "\n" + translate_code(repo) + "\n" + translate_data() + "\n"
