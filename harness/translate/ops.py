"""Translator: the arithmetic of `_sequence_common_getitem_impl` (implementation.py)
and the decision tree at the end of `_visit_binop_no_mvv` (name_check_visitor.py)
-> coq/theories/Gen/Ops.v   (C19).

Fail-closed.  The statement *shape* of both regions is pinned by comparing the
`ast.dump` of the region (with the translated sub-expressions replaced by
holes) against the dump of a template held here; the holes themselves are
translated by a tiny arithmetic / boolean expression translator.  Any other
shape raises TranslateError, which the check reports as a broken obligation.
"""
import ast
import copy
from pathlib import Path


class TranslateError(Exception):
    pass


def _fail(node, why, fname="?"):
    raise TranslateError(f"{fname}:{getattr(node, 'lineno', '?')}: {why}: {ast.dump(node)[:300] if isinstance(node, ast.AST) else node}")


# ---------------------------------------------------------------------------
# region 1: the int-key / SequenceValue branch of _sequence_common_getitem_impl

SEQ_TEMPLATE = '''
if isinstance(self_value, SequenceValue):
    members = self_value.get_member_sequence()
    if members is not None:
        if __HOLE_INRANGE__:
            return members[key.val]
        elif typ is tuple:
            ctx.show_error(f"Tuple index out of range: {key}")
            return AnyValue(AnySource.error)
        else:
            # fall back to the common type
            return self_value.args[0]
    else:
        if __HOLE_NONNEG__:
            for i, (is_many, member) in enumerate(self_value.members):
                if is_many:
                    break
                if i == key.val:
                    return member
        else:
            index_from_back = __HOLE_OFFSET__
            for i, (is_many, member) in enumerate(
                reversed(self_value.members)
            ):
                if is_many:
                    break
                if i == index_from_back:
                    return member
    return self_value.args[0]
else:
    return self_value.get_generic_arg_for_type(typ, ctx.visitor, 0)
'''


def _find_func(tree, name):
    for n in ast.walk(tree):
        if isinstance(n, ast.FunctionDef) and n.name == name:
            return n
    raise TranslateError(f"function {name} not found")


def _is_isinstance(test, obj_src, cls_src):
    return (
        isinstance(test, ast.Call)
        and isinstance(test.func, ast.Name)
        and test.func.id == "isinstance"
        and len(test.args) == 2
        and ast.unparse(test.args[0]) == obj_src
        and ast.unparse(test.args[1]) == cls_src
    )


def zexpr(e, fname):
    """integer expressions over key.val, len(members), literals, + - unary-minus"""
    if isinstance(e, ast.Constant) and type(e.value) is int:
        return f"({e.value})"
    if isinstance(e, ast.Attribute) and ast.unparse(e) == "key.val":
        return "key"
    if isinstance(e, ast.Call) and ast.unparse(e) == "len(members)":
        return "len"
    if isinstance(e, ast.UnaryOp) and isinstance(e.op, ast.USub):
        return f"(- {zexpr(e.operand, fname)})"
    if isinstance(e, ast.BinOp) and isinstance(e.op, (ast.Add, ast.Sub)):
        op = "+" if isinstance(e.op, ast.Add) else "-"
        return f"({zexpr(e.left, fname)} {op} {zexpr(e.right, fname)})"
    _fail(e, "unsupported integer expression", fname)


CMP = {ast.LtE: "<=?", ast.Lt: "<?", ast.GtE: ">=?", ast.Gt: ">?", ast.Eq: "=?"}


def bexpr(e, fname):
    """chained comparisons of integer expressions"""
    if isinstance(e, ast.Compare):
        parts = []
        left = e.left
        for op, right in zip(e.ops, e.comparators):
            if type(op) not in CMP:
                _fail(e, "unsupported comparison", fname)
            parts.append(f"({zexpr(left, fname)} {CMP[type(op)]} {zexpr(right, fname)})")
            left = right
        return " && ".join(parts)
    if isinstance(e, ast.BoolOp) and isinstance(e.op, ast.And):
        return " && ".join("(" + bexpr(v, fname) + ")" for v in e.values)
    _fail(e, "unsupported boolean expression", fname)


def _hole(name):
    return ast.Name(id=name, ctx=ast.Load())


def translate_seq(repo):
    fname = "implementation.py"
    src = (Path(repo) / "pyanalyze" / fname).read_text()
    tree = ast.parse(src)
    outer = _find_func(tree, "_sequence_common_getitem_impl")
    inner = _find_func(outer, "inner")
    # locate: if isinstance(key, KnownValue): if isinstance(key.val, int): <region>
    region = None
    for st in inner.body:
        if isinstance(st, ast.If) and _is_isinstance(st.test, "key", "KnownValue"):
            first = st.body[0] if st.body else None
            if isinstance(first, ast.If) and _is_isinstance(first.test, "key.val", "int") and len(first.body) == 1:
                region = first.body[0]
    if region is None or not isinstance(region, ast.If):
        _fail(inner, "int-key branch not found", fname)
    region = copy.deepcopy(region)
    try:
        fixed = region.body[1]  # if members is not None:
        in_range_if = fixed.body[0]
        in_range = in_range_if.test
        in_range_if.test = _hole("__HOLE_INRANGE__")
        variadic = fixed.orelse
        nonneg_if = variadic[0]
        nonneg = nonneg_if.test
        nonneg_if.test = _hole("__HOLE_NONNEG__")
        assign = nonneg_if.orelse[0]
        if not (isinstance(assign, ast.Assign) and ast.unparse(assign.targets[0]) == "index_from_back"):
            _fail(assign, "expected `index_from_back = ...`", fname)
        offset = assign.value
        assign.value = _hole("__HOLE_OFFSET__")
    except (IndexError, AttributeError):
        _fail(region, "unexpected statement shape in the SequenceValue branch", fname)
    tmpl = ast.parse(SEQ_TEMPLATE).body[0]
    if ast.dump(region) != ast.dump(tmpl):
        _fail(region, "SequenceValue int-key branch no longer has the modelled statement shape", fname)
    return [
        "(* implementation.py _sequence_common_getitem_impl: `%s` *)" % ast.unparse(in_range),
        f"Definition in_range (len key : Z) : bool := {bexpr(in_range, fname)}.",
        "(* `if %s:` selects the forward scan *)" % ast.unparse(nonneg),
        f"Definition forward_scan (key : Z) : bool := {bexpr(nonneg, fname)}.",
        "(* `index_from_back = %s` *)" % ast.unparse(offset),
        f"Definition index_from_back (key : Z) : Z := {zexpr(offset, fname)}.",
    ]


# ---------------------------------------------------------------------------
# region 2: how _visit_binop_no_mvv combines the two dunder attempts

BINOP_CALLS_TEMPLATE = '''
with self.catch_errors() as left_errors:
    left_result, _ = self._check_dunder_call(
        source_node,
        left_composite,
        method,
        [right_composite],
        allow_call=allow_call,
    )
with self.catch_errors() as right_errors:
    right_result, _ = self._check_dunder_call(
        source_node,
        right_composite,
        rmethod,
        [left_composite],
        allow_call=allow_call,
    )
'''


def _tree(stmts, fname):
    """if-tree over the names left_errors/right_errors/isinstance(right_result, AnyValue)
    whose leaves are `return <name>` / show_error + return AnyValue(error)"""
    if not stmts:
        _fail("empty", "fell off the end of the decision tree", fname)
    st = stmts[0]
    if isinstance(st, ast.If):
        if isinstance(st.test, ast.Name) and st.test.id in ("left_errors", "right_errors"):
            c = st.test.id
        elif _is_isinstance(st.test, "right_result", "AnyValue"):
            c = "right_is_any"
        else:
            _fail(st.test, "unsupported condition", fname)
        then = _tree(st.body, fname)
        other = _tree(st.orelse if st.orelse else stmts[1:], fname)
        return f"(if {c} then {then} else {other})"
    if isinstance(st, ast.Return):
        v = st.value
        if isinstance(v, ast.Name) and v.id in ("left_result", "right_result"):
            return v.id
        if ast.unparse(v) == "AnyValue(AnySource.from_another)":
            return "any_from_another"
        _fail(st, "unsupported return", fname)
    if isinstance(st, ast.Expr) and isinstance(st.value, ast.Call) and ast.unparse(st.value.func) == "self.show_error":
        kws = {k.arg: ast.unparse(k.value) for k in st.value.keywords}
        if kws.get("error_code") != "ErrorCode.unsupported_operation":
            _fail(st, "unexpected error code", fname)
        nxt = stmts[1] if len(stmts) > 1 else None
        if not (isinstance(nxt, ast.Return) and ast.unparse(nxt.value) == "AnyValue(AnySource.error)"):
            _fail(st, "show_error not followed by `return AnyValue(AnySource.error)`", fname)
        return "diag"
    _fail(st, "unsupported statement", fname)


def translate_binop(repo):
    fname = "name_check_visitor.py"
    src = (Path(repo) / "pyanalyze" / fname).read_text()
    tree = ast.parse(src)
    fn = _find_func(tree, "_visit_binop_no_mvv")
    idx = None
    for i, st in enumerate(fn.body):
        if isinstance(st, ast.With) and ast.unparse(st.items[0]) == "self.catch_errors() as left_errors":
            idx = i
    if idx is None or idx + 2 >= len(fn.body):
        _fail(fn, "left/right dunder attempts not found", fname)
    calls = fn.body[idx : idx + 2]
    tmpl = ast.parse(BINOP_CALLS_TEMPLATE).body
    if [ast.dump(c) for c in calls] != [ast.dump(t) for t in tmpl]:
        _fail(calls[0], "the two dunder attempts no longer have the modelled shape", fname)
    body = _tree(fn.body[idx + 2 :], fname)
    return [
        "(* name_check_visitor.py _visit_binop_no_mvv: the decision tree after the two dunder attempts *)",
        "Definition combine {V : Type} (left_errors right_errors right_is_any : bool)",
        "  (left_result right_result diag any_from_another : V) : V :=",
        f"  {body}.",
    ]


# ---------------------------------------------------------------------------
# region 3: the order of the steps in the MRO loop of attributes._get_attribute_from_mro, and
# the condition under which name_check_visitor._get_attribute_fallback accepts a missing attribute


def translate_attr(repo):
    fname = "attributes.py"
    tree = ast.parse((Path(repo) / "pyanalyze" / fname).read_text())
    fn = _find_func(tree, "_get_attribute_from_mro")
    loop = None
    for n in ast.walk(fn):
        if isinstance(n, ast.For) and ast.unparse(n.iter) == "mro":
            loop = n
    if loop is None:
        _fail(fn, "`for base_cls in mro` not found", fname)
    steps = []
    for st in loop.body:
        src = ast.unparse(st)
        if isinstance(st, ast.If) and ast.unparse(st.test) == "ctx.skip_mro and base_cls is not typ":
            continue
        if isinstance(st, ast.Assign) and ast.unparse(st.targets[0]) == "typeshed_type" and "get_attribute_from_typeshed" in src:
            continue
        if isinstance(st, ast.If) and ast.unparse(st.test) == "typeshed_type is not UNINITIALIZED_VALUE":
            if "isinstance(typeshed_type, CallableValue)" in src:
                steps.append("SStubNonCallable")
            elif len(st.body) == 1 and isinstance(st.body[0], ast.Return):
                steps.append("SStubCallable")
            else:
                _fail(st, "unrecognised use of the stub attribute", fname)
            continue
        if isinstance(st, ast.Try):
            body = ast.unparse(st.body[0]) if st.body else ""
            if body == "base_dict = base_cls.__dict__":
                continue
            if "type_from_annotations" in ast.unparse(ast.Module(body=st.orelse, type_ignores=[])):
                steps.append("SAnnotations")
                continue
            if body == "base_dict[ctx.attr]":
                els = ast.unparse(ast.Module(body=st.orelse, type_ignores=[]))
                if "KnownValue(getattr(typ, ctx.attr))" not in els or "AnyValue(AnySource.inference)" not in els:
                    _fail(st, "the base-dict hit no longer performs getattr on the object", fname)
                steps.append("SBaseDict")
                continue
        _fail(st, "unknown statement in the MRO loop", fname)
    if sorted(steps) != sorted(["SStubNonCallable", "SAnnotations", "SBaseDict", "SStubCallable"]):
        _fail(loop, f"expected the four known steps, found {steps}", fname)
    # the fallback after the loop: getattr on the object itself
    tail = ast.unparse(ast.Module(body=fn.body[-3:], type_ignores=[]))
    if "KnownValue(getattr(typ, ctx.attr))" not in tail or "return (UNINITIALIZED_VALUE, object, False)" not in tail:
        _fail(fn, "the final getattr fallback changed", fname)
    out = [
        "(* attributes.py _get_attribute_from_mro: steps of `for base_cls in mro`, in source order *)",
        "Definition mro_step_order : list step := [" + "; ".join(steps) + "].",
    ]
    fname = "name_check_visitor.py"
    tree = ast.parse((Path(repo) / "pyanalyze" / fname).read_text())
    fb = _find_func(tree, "_get_attribute_fallback")
    cond = None
    for n in ast.walk(fb):
        if isinstance(n, ast.If) and "_static_hasattr(root_value.val, '__getattr__')" in ast.unparse(n.test):
            if [ast.unparse(x) for x in n.body] != ["return AnyValue(AnySource.inference)"]:
                _fail(n, "the accepted-missing-attribute branch no longer returns Any", fname)
            cond = n.test
    if cond is None:
        _fail(fb, "the __getattr__ test of _get_attribute_fallback not found", fname)
    atoms = {
        "_has_only_known_attributes(self.checker.ts_finder, root_value.val)": "only_known",
        "_static_hasattr(root_value.val, '__getattr__')": "has_getattr",
        "self._should_ignore_val(node)": "ignored_name",
    }

    def b(e):
        src = ast.unparse(e)
        if src in atoms:
            return atoms[src]
        if isinstance(e, ast.UnaryOp) and isinstance(e.op, ast.Not):
            return f"(negb {b(e.operand)})"
        if isinstance(e, ast.BoolOp):
            op = " && " if isinstance(e.op, ast.And) else " || "
            return "(" + op.join(b(v) for v in e.values) + ")"
        _fail(e, "unsupported condition in _get_attribute_fallback", fname)

    out += [
        "(* name_check_visitor.py _get_attribute_fallback (KnownValue): a missing attribute is accepted when *)",
        f"Definition fallback_ignores (only_known has_getattr ignored_name : bool) : bool := {b(cond)}.",
    ]
    return out


def translate(repo):
    lines = [
        "(* GENERATED by harness/translate/ops.py from pyanalyze/implementation.py and",
        "   pyanalyze/name_check_visitor.py -- do not edit, not committed. *)",
        "From Coq Require Import ZArith Bool List.",
        "Import ListNotations.",
        "Require Import PV.Ops.AttrBase.",
        "Local Open Scope Z_scope.",
        "",
    ]
    lines += translate_seq(repo)
    lines.append("")
    lines += translate_binop(repo)
    lines.append("")
    lines += translate_attr(repo)
    return "\n".join(lines) + "\n"


if __name__ == "__main__":
    import sys

    print(translate(sys.argv[1] if len(sys.argv) > 1 else "/repo"))
