"""Translator: pyanalyze/options.py -> coq/theories/Gen/Options.v  (C18).

Fail-closed: every function is matched against the statement shape the
translator understands; expressions are translated by a small generic
expression translator.  Anything else raises TranslateError, which the check
reports as a broken obligation.
"""
import ast
import sys
from pathlib import Path


class TranslateError(Exception):
    pass


def _fail(node, why):
    raise TranslateError(
        f"options.py:{getattr(node, 'lineno', '?')}: {why}: {ast.dump(node)[:200]}"
    )


FIELDS = {"value", "applicable_to", "from_command_line", "priority"}


def expr(e, env):
    """Translate a Python expression to Gallina text.  env: set of local names."""
    if isinstance(e, ast.Attribute) and isinstance(e.value, ast.Name):
        if e.value.id in env and e.attr in FIELDS:
            return f"({e.attr} {e.value.id})"
        _fail(e, "unsupported attribute")
    if isinstance(e, ast.Name):
        if e.id in env:
            return e.id
        _fail(e, "unknown name")
    if isinstance(e, ast.UnaryOp):
        if isinstance(e.op, ast.Not):
            return f"(negb {expr(e.operand, env)})"
        if isinstance(e.op, ast.USub):
            return f"(Z.opp {zexpr(e.operand, env)})"
        _fail(e, "unsupported unary op")
    if isinstance(e, ast.Tuple):
        return "(" + ", ".join(expr(x, env) for x in e.elts) + ")"
    if isinstance(e, ast.Compare) and len(e.ops) == 1 and isinstance(e.ops[0], ast.Eq):
        return f"(list_N_eqb {expr(e.left, env)} {expr(e.comparators[0], env)})"
    if isinstance(e, ast.Subscript) and isinstance(e.slice, ast.Slice):
        sl = e.slice
        if sl.lower is None and sl.step is None and _is_len(sl.upper):
            return f"(firstn (length {expr(sl.upper.args[0], env)}) {expr(e.value, env)})"
        _fail(e, "unsupported slice")
    if isinstance(e, ast.Call) and isinstance(e.func, ast.Attribute):
        # method call on a local instance: x.is_applicable_to(a)
        if (
            isinstance(e.func.value, ast.Name)
            and e.func.value.id in env
            and e.func.attr == "is_applicable_to"
            and len(e.args) == 1
            and not e.keywords
        ):
            return f"(is_applicable_to {e.func.value.id} {expr(e.args[0], env)})"
        _fail(e, "unsupported method call")
    if _is_len(e):
        return zexpr(e, env)
    _fail(e, "unsupported expression")


def _is_len(e):
    return (
        isinstance(e, ast.Call)
        and isinstance(e.func, ast.Name)
        and e.func.id == "len"
        and len(e.args) == 1
        and not e.keywords
    )


def zexpr(e, env):
    if _is_len(e):
        return f"(Z.of_nat (length {expr(e.args[0], env)}))"
    return expr(e, env)


def _body(fn):
    body = fn.body
    if body and isinstance(body[0], ast.Expr) and isinstance(body[0].value, ast.Constant):
        body = body[1:]  # docstring
    return body


def _find_class(mod, name):
    for n in mod.body:
        if isinstance(n, ast.ClassDef) and n.name == name:
            return n
    raise TranslateError(f"class {name} not found")


def _find_fn(container, name):
    for n in container.body:
        if isinstance(n, ast.FunctionDef) and n.name == name:
            return n
    raise TranslateError(f"function {name} not found")


def _argnames(fn):
    a = fn.args
    if a.vararg or a.kwarg or a.kwonlyargs or a.posonlyargs:
        _fail(fn, "unexpected parameter kinds")
    return [x.arg for x in a.args]


def tr_single_return(fn, params):
    body = _body(fn)
    if len(body) != 1 or not isinstance(body[0], ast.Return):
        _fail(fn, "expected a single return")
    if _argnames(fn) != params:
        _fail(fn, f"expected parameters {params}")
    return expr(body[0].value, set(params))


def tr_for_first(fn):
    """for instance in instances: if C: return E  /  raise NotFound"""
    if _argnames(fn) != ["cls", "instances", "module_path"]:
        _fail(fn, "unexpected parameters")
    body = _body(fn)
    if len(body) != 2:
        _fail(fn, "expected for + raise")
    loop, rs = body
    if not (
        isinstance(loop, ast.For)
        and isinstance(loop.target, ast.Name)
        and isinstance(loop.iter, ast.Name)
        and loop.iter.id == "instances"
        and not loop.orelse
        and len(loop.body) == 1
        and isinstance(loop.body[0], ast.If)
        and not loop.body[0].orelse
        and len(loop.body[0].body) == 1
        and isinstance(loop.body[0].body[0], ast.Return)
    ):
        _fail(loop, "expected `for x in instances: if C: return E`")
    if not (isinstance(rs, ast.Raise) and isinstance(rs.exc, ast.Name) and rs.exc.id == "NotFound"):
        _fail(rs, "expected raise NotFound")
    v = loop.target.id
    env = {v, "module_path"}
    cond = expr(loop.body[0].test, env)
    ret = expr(loop.body[0].body[0].value, env)
    return f"for_first instances (fun {v} => {cond}) (fun {v} => {ret})"


def tr_concat(fn):
    """values = []; for i in instances: if C: values += i.value; values += cls.default_value; return values"""
    if _argnames(fn) != ["cls", "instances", "module_path"]:
        _fail(fn, "unexpected parameters")
    body = _body(fn)
    if len(body) != 4:
        _fail(fn, "expected 4 statements")
    init, loop, dflt, ret = body
    ok = (
        isinstance(init, ast.Assign)
        and len(init.targets) == 1
        and isinstance(init.targets[0], ast.Name)
        and isinstance(init.value, ast.List)
        and not init.value.elts
    )
    if not ok:
        _fail(init, "expected `values = []`")
    acc = init.targets[0].id
    ok = (
        isinstance(loop, ast.For)
        and isinstance(loop.target, ast.Name)
        and isinstance(loop.iter, ast.Name)
        and loop.iter.id == "instances"
        and not loop.orelse
        and len(loop.body) == 1
        and isinstance(loop.body[0], ast.If)
        and not loop.body[0].orelse
        and len(loop.body[0].body) == 1
        and isinstance(loop.body[0].body[0], ast.AugAssign)
        and isinstance(loop.body[0].body[0].op, ast.Add)
        and isinstance(loop.body[0].body[0].target, ast.Name)
        and loop.body[0].body[0].target.id == acc
    )
    if not ok:
        _fail(loop, "expected `for i in instances: if C: values += E`")
    v = loop.target.id
    env = {v, "module_path"}
    cond = expr(loop.body[0].test, env)
    add = expr(loop.body[0].body[0].value, env)
    ok = (
        isinstance(dflt, ast.AugAssign)
        and isinstance(dflt.op, ast.Add)
        and isinstance(dflt.target, ast.Name)
        and dflt.target.id == acc
        and isinstance(dflt.value, ast.Attribute)
        and isinstance(dflt.value.value, ast.Name)
        and dflt.value.value.id == "cls"
        and dflt.value.attr == "default_value"
    )
    if not ok:
        _fail(dflt, "expected `values += cls.default_value`")
    if not (isinstance(ret, ast.Return) and isinstance(ret.value, ast.Name) and ret.value.id == acc):
        _fail(ret, "expected `return values`")
    return f"flat_map (fun {v} => if {cond} then {add} else []) instances ++ default_value"


def tr_no_default(fn):
    """instances = [*self.options.get(option.name, ()), option(option.default_value)]
    return option.get_value_from_instances(instances, self.module_path)"""
    body = _body(fn)
    want = [
        "Assign(targets=[Name(id='instances', ctx=Store())], value=List(elts=[Starred(value=Call(func=Attribute(value=Attribute(value=Name(id='self', ctx=Load()), attr='options', ctx=Load()), attr='get', ctx=Load()), args=[Attribute(value=Name(id='option', ctx=Load()), attr='name', ctx=Load()), Tuple(elts=[], ctx=Load())], keywords=[]), ctx=Load()), Call(func=Name(id='option', ctx=Load()), args=[Attribute(value=Name(id='option', ctx=Load()), attr='default_value', ctx=Load())], keywords=[])], ctx=Load()))",
        "Return(value=Call(func=Attribute(value=Name(id='option', ctx=Load()), attr='get_value_from_instances', ctx=Load()), args=[Name(id='instances', ctx=Load()), Attribute(value=Name(id='self', ctx=Load()), attr='module_path', ctx=Load())], keywords=[]))",
    ]
    got = [ast.dump(s) for s in body]
    if got != want:
        _fail(fn, "_get_value_for_no_default has an unexpected shape")
    return True


def tr_from_option_list(fn):
    """CLI instances first, then the file's; grouped by name; sorted(key=sort_key)."""
    body = _body(fn)
    want = [
        "If(test=Name(id='config_file_path', ctx=Load()), body=[Assign(targets=[Name(id='instances', ctx=Store())], value=List(elts=[Starred(value=Name(id='instances', ctx=Load()), ctx=Load()), Starred(value=Call(func=Name(id='parse_config_file', ctx=Load()), args=[Name(id='config_file_path', ctx=Load())], keywords=[]), ctx=Load())], ctx=Load()))], orelse=[])",
        "Assign(targets=[Name(id='by_name', ctx=Store())], value=Call(func=Name(id='defaultdict', ctx=Load()), args=[Name(id='list', ctx=Load())], keywords=[]))",
        "For(target=Name(id='instance', ctx=Store()), iter=Name(id='instances', ctx=Load()), body=[Expr(value=Call(func=Attribute(value=Subscript(value=Name(id='by_name', ctx=Load()), slice=Attribute(value=Name(id='instance', ctx=Load()), attr='name', ctx=Load()), ctx=Load()), attr='append', ctx=Load()), args=[Name(id='instance', ctx=Load())], keywords=[]))], orelse=[])",
        "Assign(targets=[Name(id='options', ctx=Store())], value=DictComp(key=Name(id='name', ctx=Load()), value=Call(func=Name(id='sorted', ctx=Load()), args=[Name(id='instances', ctx=Load())], keywords=[keyword(arg='key', value=Lambda(args=arguments(posonlyargs=[], args=[arg(arg='i')], kwonlyargs=[], kw_defaults=[], defaults=[]), body=Call(func=Attribute(value=Name(id='i', ctx=Load()), attr='sort_key', ctx=Load()), args=[], keywords=[])))]), generators=[comprehension(target=Tuple(elts=[Name(id='name', ctx=Store()), Name(id='instances', ctx=Store())], ctx=Store()), iter=Call(func=Attribute(value=Name(id='by_name', ctx=Load()), attr='items', ctx=Load()), args=[], keywords=[]), ifs=[], is_async=0)]))",
        "Return(value=Call(func=Name(id='Options', ctx=Load()), args=[Name(id='options', ctx=Load())], keywords=[]))",
    ]
    got = [ast.dump(s) for s in body]
    if got != want:
        _fail(fn, "from_option_list has an unexpected shape")
    return True


def tr_anywhere(fn):
    """Options.is_error_code_enabled_anywhere: the two lookups at the top are shape-matched
    (option = registry[code.name]; instances = self.options.get(option.name, ())); the decision that
    follows -- a sequence of `if <test>: return <e>` closed by `return <e>` over any()/all() of
    instance.value, the truthiness of `instances`, True/False and option.default_value -- is
    translated statement by statement."""
    body = _body(fn)
    want = [
        "Assign(targets=[Name(id='option', ctx=Store())], value=Subscript(value=Attribute(value=Name(id='ConfigOption', ctx=Load()), attr='registry', ctx=Load()), slice=Attribute(value=Name(id='code', ctx=Load()), attr='name', ctx=Load()), ctx=Load()))",
        "Assign(targets=[Name(id='instances', ctx=Store())], value=Call(func=Attribute(value=Attribute(value=Name(id='self', ctx=Load()), attr='options', ctx=Load()), attr='get', ctx=Load()), args=[Attribute(value=Name(id='option', ctx=Load()), attr='name', ctx=Load()), Tuple(elts=[], ctx=Load())], keywords=[]))",
    ]
    if [ast.dump(x) for x in body[:2]] != want:
        _fail(fn, "is_error_code_enabled_anywhere: unexpected lookups at the top")

    def bexpr(e, bound):
        if isinstance(e, ast.Constant) and e.value is True:
            return "true"
        if isinstance(e, ast.Constant) and e.value is False:
            return "false"
        if isinstance(e, ast.Attribute) and isinstance(e.value, ast.Name) and e.value.id == "option" and e.attr == "default_value":
            return "default_value"
        if isinstance(e, ast.Attribute) and isinstance(e.value, ast.Name) and e.value.id in bound and e.attr == "value":
            return f"(value {e.value.id})"
        if isinstance(e, ast.Name) and e.id == "instances":  # truthiness of a list / tuple
            return "(negb (match instances with [] => true | _ => false end))"
        if isinstance(e, ast.UnaryOp) and isinstance(e.op, ast.Not):
            return f"(negb {bexpr(e.operand, bound)})"
        if isinstance(e, ast.BoolOp):
            op = "&&" if isinstance(e.op, ast.And) else "||"
            return "(" + f" {op} ".join(bexpr(v, bound) for v in e.values) + ")"
        if (
            isinstance(e, ast.Call) and isinstance(e.func, ast.Name) and e.func.id in ("any", "all") and len(e.args) == 1
            and not e.keywords and isinstance(e.args[0], ast.GeneratorExp) and len(e.args[0].generators) == 1
        ):
            g = e.args[0].generators[0]
            if not (isinstance(g.target, ast.Name) and isinstance(g.iter, ast.Name) and g.iter.id == "instances" and not g.is_async):
                _fail(e, "unsupported generator")
            v = g.target.id
            inner = bexpr(e.args[0].elt, bound | {v})
            for c in g.ifs:
                cond = bexpr(c, bound | {v})
                inner = f"(implb {cond} {inner})" if e.func.id == "all" else f"({cond} && {inner})"
            return f"({'existsb' if e.func.id == 'any' else 'forallb'} (fun {v} => {inner}) instances)"
        _fail(e, "unsupported expression in is_error_code_enabled_anywhere")

    def stmts(ss):
        if not ss:
            _fail(fn, "is_error_code_enabled_anywhere falls off its end")
        st = ss[0]
        if isinstance(st, ast.Return) and st.value is not None:
            return bexpr(st.value, set())
        if isinstance(st, ast.If):
            then = stmts(st.body)
            rest = stmts(st.orelse) if st.orelse else stmts(ss[1:])
            return f"(if {bexpr(st.test, set())} then {then} else {rest})"
        _fail(st, "unsupported statement in is_error_code_enabled_anywhere")

    return stmts(body[2:])


def parse_section_facts(fn):
    """Facts about _parse_config_section that the hand-written parser model
    depends on: every `yield option_cls(...)` passes module_path positionally
    and priority=priority; extend_config recurses with priority + 1; overrides
    recurse with the same priority."""
    yields = []
    extend_delta = None
    override_same = None
    for n in ast.walk(fn):
        if isinstance(n, ast.Yield) and isinstance(n.value, ast.Call):
            c = n.value
            if isinstance(c.func, ast.Name) and c.func.id == "option_cls":
                pos_ok = len(c.args) == 2 and isinstance(c.args[1], ast.Name) and c.args[1].id == "module_path"
                kw = {k.arg: k.value for k in c.keywords}
                pr_ok = set(kw) == {"priority"} and isinstance(kw["priority"], ast.Name) and kw["priority"].id == "priority"
                yields.append(pos_ok and pr_ok)
        if isinstance(n, ast.YieldFrom) and isinstance(n.value, ast.Call) and isinstance(n.value.func, ast.Name):
            c = n.value
            kw = {k.arg: k.value for k in c.keywords}
            if c.func.id == "parse_config_file":
                p = kw.get("priority")
                if (
                    isinstance(p, ast.BinOp)
                    and isinstance(p.op, ast.Add)
                    and isinstance(p.left, ast.Name)
                    and p.left.id == "priority"
                    and isinstance(p.right, ast.Constant)
                    and isinstance(p.right.value, int)
                ):
                    extend_delta = p.right.value
            elif c.func.id == "_parse_config_section":
                p = kw.get("priority")
                override_same = isinstance(p, ast.Name) and p.id == "priority"
    if len(yields) != 2:
        _fail(fn, f"expected two `yield option_cls(...)` sites, found {len(yields)}")
    if extend_delta is None:
        _fail(fn, "extend_config recursion does not pass priority + <int>")
    if override_same is None:
        _fail(fn, "overrides recursion not found")
    return all(yields), extend_delta, bool(override_same)


def translate(repo="/repo"):
    src = Path(repo, "pyanalyze/options.py").read_text()
    mod = ast.parse(src)
    co = _find_class(mod, "ConfigOption")
    cc = _find_class(mod, "ConcatenatedOption")
    op = _find_class(mod, "Options")
    is_app = tr_single_return(_find_fn(co, "is_applicable_to"), ["self", "module_path"])
    skey = tr_single_return(_find_fn(co, "sort_key"), ["self"])
    getv = tr_for_first(_find_fn(co, "get_value_from_instances"))
    conc = tr_concat(_find_fn(cc, "get_value_from_instances"))
    tr_no_default(_find_fn(op, "_get_value_for_no_default"))
    tr_from_option_list(_find_fn(op, "from_option_list"))
    anyw = tr_anywhere(_find_fn(op, "is_error_code_enabled_anywhere"))
    sec = None
    for n in mod.body:
        if isinstance(n, ast.FunctionDef) and n.name == "_parse_config_section":
            sec = n
    if sec is None:
        raise TranslateError("_parse_config_section not found")
    passes, delta, same = parse_section_facts(sec)
    b = lambda x: "true" if x else "false"
    return f"""(* GENERATED by harness/translate/options.py from pyanalyze/options.py — do not edit *)
From Coq Require Import ZArith List Bool NArith.
Import ListNotations.
Require Import PV.Options.Base.

(* ConfigOption.is_applicable_to *)
Definition is_applicable_to {{V : Type}} (self : inst V) (module_path : list N) : bool :=
  {is_app}.

(* ConfigOption.sort_key *)
Definition sort_key {{V : Type}} (self : inst V) : key :=
  {skey}.

(* ConfigOption.get_value_from_instances *)
Definition get_value_from_instances {{V : Type}} (instances : list (inst V)) (module_path : list N) : option V :=
  {getv}.

(* ConcatenatedOption.get_value_from_instances *)
Definition concat_get_value_from_instances {{V : Type}} (default_value : list V)
    (instances : list (inst (list V))) (module_path : list N) : list V :=
  {conc}.

(* Options._get_value_for_no_default: stored instances followed by option(default_value) *)
Definition get_value_for_no_default {{V : Type}} (default_value : V) (stored : list (inst V)) (module_path : list N) : option V :=
  get_value_from_instances (stored ++ [mk_inst default_value [] false 0%Z]) module_path.

(* Options.from_option_list: command-line instances, then the file's, sorted (stable) by sort_key *)
Definition from_option_list {{V : Type}} (cli file : list (inst V)) : list (inst V) :=
  sort_by sort_key (cli ++ file).

(* Options.is_error_code_enabled_anywhere (the stored instances of the code's option, its default) *)
Definition enabled_anywhere (default_value : bool) (instances : list (inst bool)) : bool :=
  {anyw}.

(* _parse_config_section facts *)
Definition yield_passes_priority : bool := {b(passes)}.
Definition extend_priority_delta : Z := {delta}%Z.
Definition override_same_priority : bool := {b(same)}.
"""


if __name__ == "__main__":
    sys.stdout.write(translate(sys.argv[1] if len(sys.argv) > 1 else "/repo"))
