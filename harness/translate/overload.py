"""Translator: pyanalyze/signature.py -> coq/theories/Gen/OverloadGen.v  (C08).

1. `OverloadedSignature._unite_rets` is translated statement by statement into
   the Gallina function `gen_unite_rets` (fail-closed: any statement or
   expression shape the translator does not know aborts it); the obligation
   `gen_unite_rets_is_model` proves it equal to the hand-written
   `Overload.Resolve.unite_rets`.
2. The regions the rest of the model mirrors are pinned (see regions.py).
"""
import ast

from .regions import TranslateError, coq_pins, digest, find, one_statement, parse, pin_function, strip_docstring

REL = "pyanalyze/signature.py"
LISTS = {"any_rets": "anys", "union_and_any_rets": "uanys", "union_rets": "unions"}


def _fail(node, why):
    raise TranslateError(f"{REL}:{getattr(node, 'lineno', '?')}: _unite_rets: {why}: {ast.dump(node)[:160]}")


def bexpr(e, env):
    if isinstance(e, ast.Name) and e.id in LISTS:
        return f"(negb (is_nil {LISTS[e.id]}))"
    if isinstance(e, ast.UnaryOp) and isinstance(e.op, ast.Not):
        return f"(negb {bexpr(e.operand, env)})"
    if isinstance(e, ast.BoolOp):
        op = " && " if isinstance(e.op, ast.And) else " || "
        return "(" + op.join(bexpr(v, env) for v in e.values) + ")"
    if isinstance(e, ast.Compare) and len(e.ops) == 1:
        l, op, r = e.left, e.ops[0], e.comparators[0]
        if isinstance(l, ast.Name) and l.id == "clean_ret" and isinstance(r, ast.Constant) and r.value is None:
            if isinstance(op, ast.Is):
                return "(is_nil (opt_list clean))"
            if isinstance(op, ast.IsNot):
                return "(negb (is_nil (opt_list clean)))"
        if (isinstance(l, ast.Call) and isinstance(l.func, ast.Name) and l.func.id == "len" and len(l.args) == 1
                and isinstance(l.args[0], ast.Name) and l.args[0].id in env and isinstance(op, ast.Eq)
                and isinstance(r, ast.Constant) and isinstance(r.value, int)):
            return f"(length {env[l.args[0].id]} =? {r.value})"
    _fail(e, "unsupported condition")


def lexpr(e):
    if isinstance(e, ast.Name) and e.id in LISTS:
        return LISTS[e.id]
    if isinstance(e, ast.List):
        parts = []
        for x in e.elts:
            if isinstance(x, ast.Starred) and isinstance(x.value, ast.Name) and x.value.id in LISTS:
                parts.append(LISTS[x.value.id])
            elif isinstance(x, ast.Name) and x.id == "clean_ret":
                parts.append("opt_list clean")
            else:
                _fail(x, "unsupported list element")
        return "(" + " ++ ".join(parts) + ")"
    _fail(e, "unsupported list expression")


def block(stmts, env, final):
    """Translate a statement list; `final(rets_expr)` is the continuation that
    runs after the if-chain has assigned `rets`."""
    if not stmts:
        _fail(ast.Pass(), "fell off a branch without assigning rets")
    s, rest = stmts[0], stmts[1:]
    if isinstance(s, ast.Assign) and len(s.targets) == 1 and isinstance(s.targets[0], ast.Name):
        name = s.targets[0].id
        if name == "deduped":
            v = s.value
            ok = (isinstance(v, ast.SetComp) and len(v.generators) == 1 and not v.generators[0].ifs
                  and isinstance(v.generators[0].iter, ast.Name) and v.generators[0].iter.id in LISTS
                  and isinstance(v.elt, ast.Attribute) and v.elt.attr == "return_value")
            if not ok:
                _fail(s, "deduped must be {ret.return_value for ret in <list>}")
            env = dict(env, deduped=f"(nodupn {LISTS[v.generators[0].iter.id]})")
            return block(rest, env, final)
        if name == "rets":
            if rest:
                _fail(rest[0], "statement after rets = ...")
            return final(lexpr(s.value))
    if isinstance(s, ast.If):
        if rest:
            _fail(rest[0], "statement after an if inside the chain")
        return f"(if {bexpr(s.test, env)}\n   then {block(s.body, env, final)}\n   else {block(s.orelse, env, final)})"
    if isinstance(s, ast.Return):
        v = s.value
        if (isinstance(v, ast.Call) and isinstance(v.func, ast.Name) and v.func.id == "AnyValue" and len(v.args) == 1
                and isinstance(v.args[0], ast.Attribute) and v.args[0].attr == "multiple_overload_matches"):
            return "RAnyMulti"
        _fail(s, "unsupported return")
    if isinstance(s, ast.Assert):
        return f"(if {bexpr(s.test, env)} then {block(rest, env, final)} else RErr)"
    _fail(s, "unsupported statement")


def translate_unite_rets(tree):
    fn = find(tree, "OverloadedSignature._unite_rets", REL)
    names = [a.arg for a in fn.args.args]
    if names != ["self", "any_rets", "union_and_any_rets", "union_rets", "clean_ret"]:
        _fail(fn, f"unexpected parameters {names}")
    body = strip_docstring(fn)
    if len(body) != 3 or not isinstance(body[0], ast.If):
        _fail(fn, "expected: if-chain; deprecation loop; return unite_values(...)")
    loop, ret = body[1], body[2]
    if not (isinstance(loop, ast.For) and isinstance(loop.iter, ast.Name) and loop.iter.id == "rets"
            and "deprecated" in ast.dump(loop) and "Return" not in ast.dump(loop)):
        _fail(loop, "second statement must be the deprecation loop over rets")
    v = ret.value if isinstance(ret, ast.Return) else None
    ok = (isinstance(v, ast.Call) and isinstance(v.func, ast.Name) and v.func.id == "unite_values" and len(v.args) == 1
          and isinstance(v.args[0], ast.Starred) and isinstance(v.args[0].value, ast.ListComp)
          and isinstance(v.args[0].value.generators[0].iter, ast.Name) and v.args[0].value.generators[0].iter.id == "rets"
          and isinstance(v.args[0].value.elt, ast.Attribute) and v.args[0].value.elt.attr == "return_value")
    if not ok:
        _fail(ret, "last statement must be return unite_values(*[r.return_value for r in rets])")
    term = block([body[0]], {}, lambda rets: f"RTypes (nodupn {rets})")
    return ("Definition gen_unite_rets (anys uanys unions : list rtype) (clean : option rtype) : result :=\n  " + term + ".\n")


def pins(tree):
    out = {}
    for name, qual in [
        ("pin_check_call", "OverloadedSignature.check_call"),
        ("pin_check_param_type_compatibility", "Signature._check_param_type_compatibility"),
        ("pin_decompose_union", "decompose_union"),
        ("pin_check_call_preprocessed", "Signature.check_call_preprocessed"),
    ]:
        out[name] = (f"{REL}: {qual}", pin_function(tree, qual, REL))
    fn = find(tree, "Signature.check_call_with_bound_args", REL)
    loop = one_statement(fn, lambda n: isinstance(n, ast.For) and "bound_args" in ast.dump(n.iter) and "_check_param_type_compatibility" in ast.dump(n),
                         "parameter loop over bound_args.items()", REL)
    out["pin_param_loop"] = (f"{REL}: Signature.check_call_with_bound_args, parameter loop", digest(loop))
    ret = one_statement(fn, lambda n: isinstance(n, ast.Return) and "remaining_arguments" in ast.dump(n), "final return CallReturn(...)", REL)
    out["pin_call_return"] = (f"{REL}: Signature.check_call_with_bound_args, final CallReturn", digest(ret))
    return out


def translate(repo):
    tree = parse(repo, REL)
    return (
        "(* GENERATED by harness/translate/overload.py from pyanalyze/signature.py — do not edit. *)\n"
        "From Coq Require Import List Bool Arith.\nImport ListNotations.\nRequire Import PV.Overload.Resolve.\n\n"
        "(* OverloadedSignature._unite_rets, statement by statement *)\n"
        + translate_unite_rets(tree) + "\n" + coq_pins(pins(tree))
    )


if __name__ == "__main__":
    import sys

    print(translate(sys.argv[1] if len(sys.argv) > 1 else "/repo"))
