"""Translator: pyanalyze/signature.py -> coq/theories/Gen/OverloadGen.v  (C08).

1. `OverloadedSignature._unite_rets` is translated statement by statement into
   the Gallina function `gen_unite_rets` (fail-closed: any statement or
   expression shape the translator does not know aborts it); the obligation
   `gen_unite_rets_is_model` proves it equal to the hand-written
   `Overload.Resolve.unite_rets`.
2. The regions the rest of the model mirrors are pinned (see regions.py).
"""
import ast

from .regions import TranslateError, coq_pins, digest, find, one_statement, parse, pin_function, strip_docstring

REL = "pyanalyze/signature.py"
LISTS = {"any_rets": "anys", "union_and_any_rets": "uanys", "union_rets": "unions"}


def _fail(node, why):
    raise TranslateError(f"{REL}:{getattr(node, 'lineno', '?')}: _unite_rets: {why}: {ast.dump(node)[:160]}")


def bexpr(e, env):
    if isinstance(e, ast.Name) and e.id in LISTS:
        return f"(negb (is_nil {LISTS[e.id]}))"
    if isinstance(e, ast.UnaryOp) and isinstance(e.op, ast.Not):
        return f"(negb {bexpr(e.operand, env)})"
    if isinstance(e, ast.BoolOp):
        op = " && " if isinstance(e.op, ast.And) else " || "
        return "(" + op.join(bexpr(v, env) for v in e.values) + ")"
    if isinstance(e, ast.Compare) and len(e.ops) == 1:
        l, op, r = e.left, e.ops[0], e.comparators[0]
        if isinstance(l, ast.Name) and l.id == "clean_ret" and isinstance(r, ast.Constant) and r.value is None:
            if isinstance(op, ast.Is):
                return "(is_nil (opt_list clean))"
            if isinstance(op, ast.IsNot):
                return "(negb (is_nil (opt_list clean)))"
        if (isinstance(l, ast.Call) and isinstance(l.func, ast.Name) and l.func.id == "len" and len(l.args) == 1
                and isinstance(l.args[0], ast.Name) and l.args[0].id in env and isinstance(op, ast.Eq)
                and isinstance(r, ast.Constant) and isinstance(r.value, int)):
            return f"(length {env[l.args[0].id]} =? {r.value})"
    _fail(e, "unsupported condition")


def lexpr(e):
    if isinstance(e, ast.Name) and e.id in LISTS:
        return LISTS[e.id]
    if isinstance(e, ast.List):
        parts = []
        for x in e.elts:
            if isinstance(x, ast.Starred) and isinstance(x.value, ast.Name) and x.value.id in LISTS:
                parts.append(LISTS[x.value.id])
            elif isinstance(x, ast.Name) and x.id == "clean_ret":
                parts.append("opt_list clean")
            else:
                _fail(x, "unsupported list element")
        return "(" + " ++ ".join(parts) + ")"
    _fail(e, "unsupported list expression")


def block(stmts, env, final):
    """Translate a statement list; `final(rets_expr)` is the continuation that
    runs after the if-chain has assigned `rets`."""
    if not stmts:
        _fail(ast.Pass(), "fell off a branch without assigning rets")
    s, rest = stmts[0], stmts[1:]
    if isinstance(s, ast.Assign) and len(s.targets) == 1 and isinstance(s.targets[0], ast.Name):
        name = s.targets[0].id
        if name == "deduped":
            v = s.value
            ok = (isinstance(v, ast.SetComp) and len(v.generators) == 1 and not v.generators[0].ifs
                  and isinstance(v.generators[0].iter, ast.Name) and v.generators[0].iter.id in LISTS
                  and isinstance(v.elt, ast.Attribute) and v.elt.attr == "return_value")
            if not ok:
                _fail(s, "deduped must be {ret.return_value for ret in <list>}")
            env = dict(env, deduped=f"(nodupn {LISTS[v.generators[0].iter.id]})")
            return block(rest, env, final)
        if name == "rets":
            if rest:
                _fail(rest[0], "statement after rets = ...")
            return final(lexpr(s.value))
    if isinstance(s, ast.If):
        if rest:
            _fail(rest[0], "statement after an if inside the chain")
        return f"(if {bexpr(s.test, env)}\n   then {block(s.body, env, final)}\n   else {block(s.orelse, env, final)})"
    if isinstance(s, ast.Return):
        v = s.value
        if (isinstance(v, ast.Call) and isinstance(v.func, ast.Name) and v.func.id == "AnyValue" and len(v.args) == 1
                and isinstance(v.args[0], ast.Attribute) and v.args[0].attr == "multiple_overload_matches"):
            return "RAnyMulti"
        _fail(s, "unsupported return")
    if isinstance(s, ast.Assert):
        return f"(if {bexpr(s.test, env)} then {block(rest, env, final)} else RErr)"
    _fail(s, "unsupported statement")


def translate_unite_rets(tree):
    fn = find(tree, "OverloadedSignature._unite_rets", REL)
    names = [a.arg for a in fn.args.args]
    if names != ["self", "any_rets", "union_and_any_rets", "union_rets", "clean_ret"]:
        _fail(fn, f"unexpected parameters {names}")
    body = strip_docstring(fn)
    if len(body) != 3 or not isinstance(body[0], ast.If):
        _fail(fn, "expected: if-chain; deprecation loop; return unite_values(...)")
    loop, ret = body[1], body[2]
    if not (isinstance(loop, ast.For) and isinstance(loop.iter, ast.Name) and loop.iter.id == "rets"
            and "deprecated" in ast.dump(loop) and "Return" not in ast.dump(loop)):
        _fail(loop, "second statement must be the deprecation loop over rets")
    v = ret.value if isinstance(ret, ast.Return) else None
    ok = (isinstance(v, ast.Call) and isinstance(v.func, ast.Name) and v.func.id == "unite_values" and len(v.args) == 1
          and isinstance(v.args[0], ast.Starred) and isinstance(v.args[0].value, ast.ListComp)
          and isinstance(v.args[0].value.generators[0].iter, ast.Name) and v.args[0].value.generators[0].iter.id == "rets"
          and isinstance(v.args[0].value.elt, ast.Attribute) and v.args[0].value.elt.attr == "return_value")
    if not ok:
        _fail(ret, "last statement must be return unite_values(*[r.return_value for r in rets])")
    term = block([body[0]], {}, lambda rets: f"RTypes (nodupn {rets})")
    return ("Definition gen_unite_rets (anys uanys unions : list rtype) (clean : option rtype) : result :=\n  " + term + ".\n")


# ---------------------------------------------------------------------------
# the overload loop of OverloadedSignature.check_call


def _lfail(node, why):
    raise TranslateError(f"{REL}:{getattr(node, 'lineno', '?')}: check_call loop: {why}: {ast.dump(node)[:160]}")


def ret_cond(e):
    """conditions on the CallReturn `ret` of one overload"""
    if isinstance(e, ast.UnaryOp) and isinstance(e.op, ast.Not):
        return f"(negb {ret_cond(e.operand)})"
    if isinstance(e, ast.BoolOp):
        return "(" + (" && " if isinstance(e.op, ast.And) else " || ").join(ret_cond(v) for v in e.values) + ")"
    if isinstance(e, ast.Attribute) and isinstance(e.value, ast.Name) and e.value.id == "ret":
        if e.attr == "is_error":
            return "(cr_error ret)"
        if e.attr == "used_any_for_match":
            return "(cr_any ret)"
    if (isinstance(e, ast.Compare) and len(e.ops) == 1 and isinstance(e.left, ast.Attribute) and isinstance(e.left.value, ast.Name)
            and e.left.value.id == "ret" and e.left.attr == "remaining_arguments"
            and isinstance(e.comparators[0], ast.Constant) and e.comparators[0].value is None):
        if isinstance(e.ops[0], ast.IsNot):
            return "(negb (is_nil (opt_list (cr_remaining ret))))"
        if isinstance(e.ops[0], ast.Is):
            return "(is_nil (opt_list (cr_remaining ret)))"
    _lfail(e, "unsupported condition on ret")


STATE = ["actual_args", "any_rets", "union_and_any_rets", "union_rets"]


def loop_actions(stmts):
    """a branch of the if-chain: a sequence of appends / actual_args assignment / continue, or a return"""
    upd = {}
    for st in stmts:
        if isinstance(st, ast.Continue):
            continue
        if (isinstance(st, ast.Expr) and isinstance(st.value, ast.Call) and isinstance(st.value.func, ast.Attribute)
                and st.value.func.attr == "append" and isinstance(st.value.func.value, ast.Name) and st.value.func.value.id in LISTS
                and len(st.value.args) == 1 and isinstance(st.value.args[0], ast.Name) and st.value.args[0].id == "ret"):
            name = st.value.func.value.id
            if name in upd:
                _lfail(st, "two updates of the same list")
            upd[name] = f"({LISTS[name]} ++ [cr_ret ret])"
            continue
        if (isinstance(st, ast.Assign) and len(st.targets) == 1 and isinstance(st.targets[0], ast.Name) and st.targets[0].id == "actual_args"
                and isinstance(st.value, ast.Attribute) and st.value.attr == "remaining_arguments"
                and isinstance(st.value.value, ast.Name) and st.value.value.id == "ret"):
            upd["actual_args"] = "(match cr_remaining ret with Some a => a | None => args end)"
            continue
        if isinstance(st, ast.If):
            if len(stmts) != 1 and stmts.index(st) != 0:
                _lfail(st, "nested if must come first in its branch")
            rest = stmts[stmts.index(st) + 1 :]
            a = loop_actions(list(st.body) + rest)
            b = loop_actions(list(st.orelse) + rest)
            return f"(if {ret_cond(st.test)} then {a} else {b})"
        if isinstance(st, ast.Return):
            v = st.value
            if (isinstance(v, ast.Call) and isinstance(v.func, ast.Attribute) and v.func.attr == "_unite_rets"
                    and [getattr(a, "id", None) for a in v.args] == ["any_rets", "union_and_any_rets", "union_rets", "ret"]):
                return "(LReturn (gen_unite_rets anys uanys unions (Some (cr_ret ret))))"
            _lfail(st, "unsupported return")
        _lfail(st, "unsupported statement")
    args = upd.get("actual_args", "args")
    return f"(LContinue {args} {upd.get('any_rets', 'anys')} {upd.get('union_and_any_rets', 'uanys')} {upd.get('union_rets', 'unions')})"


def translate_loop(tree):
    fn = find(tree, "OverloadedSignature.check_call", REL)
    loop = one_statement(fn, lambda n: isinstance(n, ast.For) and "check_call_preprocessed" in ast.dump(n), "overload loop", REL)
    # for i, sig in enumerate(sigs):
    if not (isinstance(loop.target, ast.Tuple) and [getattr(e, "id", None) for e in loop.target.elts] == ["i", "sig"]
            and isinstance(loop.iter, ast.Call) and getattr(loop.iter.func, "id", None) == "enumerate"
            and getattr(loop.iter.args[0], "id", None) == "sigs"):
        _lfail(loop, "expected `for i, sig in enumerate(sigs)`")
    body = list(loop.body)
    # with visitor.catch_errors() as caught_errors: ret = sig.check_call_preprocessed(actual_args, ctx, is_overload=<expr>)
    w = body[0]
    call = None
    if isinstance(w, ast.With) and len(w.body) == 1 and isinstance(w.body[0], ast.Assign) and getattr(w.body[0].targets[0], "id", None) == "ret":
        call = w.body[0].value
    if not (isinstance(call, ast.Call) and isinstance(call.func, ast.Attribute) and call.func.attr == "check_call_preprocessed"
            and getattr(call.func.value, "id", None) == "sig" and [getattr(a, "id", None) for a in call.args] == ["actual_args", "ctx"]
            and [k.arg for k in call.keywords] == ["is_overload"]):
        _lfail(w, "expected ret = sig.check_call_preprocessed(actual_args, ctx, is_overload=...)")
    isov = call.keywords[0].value

    def ovexpr(e):
        if isinstance(e, ast.BoolOp):
            return "(" + (" && " if isinstance(e.op, ast.And) else " || ").join(ovexpr(v) for v in e.values) + ")"
        if (isinstance(e, ast.Compare) and len(e.ops) == 1 and getattr(e.left, "id", None) == "i" and getattr(e.comparators[0], "id", None) == "last"):
            if isinstance(e.ops[0], ast.NotEq):
                return "(negb is_last)"
            if isinstance(e.ops[0], ast.Eq):
                return "is_last"
        if isinstance(e, ast.Call) and getattr(e.func, "id", None) == "bool" and len(e.args) == 1 and getattr(e.args[0], "id", None) in LISTS:
            return f"(negb (is_nil {LISTS[e.args[0].id]}))"
        if isinstance(e, ast.Constant) and isinstance(e.value, bool):
            return "true" if e.value else "false"
        _lfail(e, "unsupported is_overload expression")

    # errors_per_overload.append(caught_errors) is bookkeeping for the message only
    rest = body[1:]
    if rest and isinstance(rest[0], ast.Expr) and "errors_per_overload" in ast.dump(rest[0]):
        rest = rest[1:]
    if len(rest) != 1 or not isinstance(rest[0], ast.If):
        _lfail(loop, "expected one if-chain on ret after the call")
    step = loop_actions(rest)
    # last = len(sigs) - 1
    last = one_statement(fn, lambda n: isinstance(n, ast.Assign) and getattr(n.targets[0], "id", None) == "last", "last = len(sigs) - 1", REL)
    if ast.dump(last.value) != ast.dump(ast.parse("len(sigs) - 1").body[0].value):
        _lfail(last, "expected last = len(sigs) - 1")
    # after the loop: if any_rets: return self._unite_rets(any_rets, union_and_any_rets, union_rets, ...)
    stmts = list(fn.body)
    after = stmts[stmts.index(loop) + 1 :] if loop in stmts else None
    if not after or not (isinstance(after[0], ast.If) and getattr(after[0].test, "id", None) == "any_rets" and not after[0].orelse
                         and len(after[0].body) == 1 and isinstance(after[0].body[0], ast.Return)
                         and isinstance(after[0].body[0].value, ast.Call) and getattr(after[0].body[0].value.func, "attr", None) == "_unite_rets"
                         and [getattr(a, "id", None) for a in after[0].body[0].value.args] == ["any_rets", "union_and_any_rets", "union_rets"]):
        _lfail(loop, "expected `if any_rets: return self._unite_rets(any_rets, union_and_any_rets, union_rets, ...)` after the loop")
    tail = after[1:]
    if not (tail and isinstance(tail[-1], ast.Return) and "AnyValue" in ast.dump(tail[-1]) and "error" in ast.dump(tail[-1])
            and any("show_error" in ast.dump(t) for t in tail)):
        _lfail(loop, "expected the error report and `return AnyValue(AnySource.error)` at the end")
    return (
        "Definition gen_is_overload (is_last : bool) (anys : list rtype) : bool :=\n  " + ovexpr(isov) + ".\n\n"
        "Definition gen_step (args : list arg) (anys uanys unions : list rtype) (ret : callret) : lstep :=\n  " + step + ".\n\n"
        "Definition gen_after_loop (anys uanys unions : list rtype) : result :=\n"
        "  if negb (is_nil anys) then gen_unite_rets anys uanys unions None else RErr.\n"
    )


def pins(tree):
    out = {}
    for name, qual in [
        ("pin_check_param_type_compatibility", "Signature._check_param_type_compatibility"),
        ("pin_decompose_union", "decompose_union"),
        ("pin_check_call_preprocessed", "Signature.check_call_preprocessed"),
    ]:
        out[name] = (f"{REL}: {qual}", pin_function(tree, qual, REL))
    fn = find(tree, "Signature.check_call_with_bound_args", REL)
    loop = one_statement(fn, lambda n: isinstance(n, ast.For) and "bound_args" in ast.dump(n.iter) and "_check_param_type_compatibility" in ast.dump(n),
                         "parameter loop over bound_args.items()", REL)
    out["pin_param_loop"] = (f"{REL}: Signature.check_call_with_bound_args, parameter loop", digest(loop))
    ret = one_statement(fn, lambda n: isinstance(n, ast.Return) and "remaining_arguments" in ast.dump(n), "final return CallReturn(...)", REL)
    out["pin_call_return"] = (f"{REL}: Signature.check_call_with_bound_args, final CallReturn", digest(ret))
    return out


def translate(repo):
    tree = parse(repo, REL)
    return (
        "(* GENERATED by harness/translate/overload.py from pyanalyze/signature.py — do not edit. *)\n"
        "From Coq Require Import List Bool Arith.\nImport ListNotations.\nRequire Import PV.Overload.Resolve.\n\n"
        "(* OverloadedSignature._unite_rets, statement by statement *)\n"
        + translate_unite_rets(tree) + "\n(* the overload loop of OverloadedSignature.check_call *)\n" + translate_loop(tree) + "\n" + coq_pins(pins(tree))
    )


if __name__ == "__main__":
    import sys

    print(translate(sys.argv[1] if len(sys.argv) > 1 else "/repo"))
