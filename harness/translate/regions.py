"""Shared helpers for the C08 / C20 translators: locating a function (or one
statement inside it) in a source file, and pinning its normalised AST.

A *pin* is the sha256 of `ast.dump` of the region with docstrings removed and
without positions; it is written into the generated Coq file as a string
constant and compared, by a `reflexivity` obligation, with the digest of the
text the hand-written model was written for.  Any edit of a pinned region
therefore breaks an obligation that names the region.
"""
import ast
import hashlib
from pathlib import Path


class TranslateError(Exception):
    pass


def parse(repo, rel):
    return ast.parse((Path(repo) / rel).read_text())


def find(tree, qualname, rel):
    """'Class.method' or 'function' at module level."""
    parts = qualname.split(".")
    body = tree.body
    node = None
    for i, p in enumerate(parts):
        want = ast.ClassDef if i < len(parts) - 1 else (ast.FunctionDef, ast.AsyncFunctionDef)
        hits = [n for n in body if isinstance(n, want) and n.name == p]
        if len(hits) != 1:
            raise TranslateError(f"{rel}: expected exactly one definition of {qualname}, found {len(hits)} for '{p}'")
        node = hits[0]
        body = node.body
    return node


def strip_docstring(fn):
    body = list(fn.body)
    if body and isinstance(body[0], ast.Expr) and isinstance(body[0].value, ast.Constant) and isinstance(body[0].value.value, str):
        body = body[1:]
    return body


class _DropDocstrings(ast.NodeTransformer):
    """remove every bare string-expression statement (docstrings, string "comments"); comments and
    whitespace never reach the AST, and positions are left out of the dump"""

    def generic_visit(self, node):
        node = super().generic_visit(node)
        for field in ("body", "orelse", "finalbody"):
            stmts = getattr(node, field, None)
            if isinstance(stmts, list):
                kept = [st for st in stmts if not (isinstance(st, ast.Expr) and isinstance(st.value, ast.Constant) and isinstance(st.value.value, str))]
                if len(kept) != len(stmts):
                    setattr(node, field, kept or [ast.Pass()])
        return node


def digest(nodes):
    import copy

    if isinstance(nodes, ast.AST):
        nodes = [nodes]
    nodes = [_DropDocstrings().visit(copy.deepcopy(n)) for n in nodes]
    text = "\n".join(ast.dump(n, annotate_fields=True, include_attributes=False) for n in nodes)
    return hashlib.sha256(text.encode()).hexdigest()[:20]


def pin_function(tree, qualname, rel):
    fn = find(tree, qualname, rel)
    return digest([fn.args] + strip_docstring(fn))


def one_statement(fn, pred, what, rel):
    hits = [n for n in ast.walk(fn) if isinstance(n, ast.stmt) and pred(n)]
    if len(hits) != 1:
        raise TranslateError(f"{rel}:{fn.lineno}: expected exactly one {what} in {fn.name}, found {len(hits)}")
    return hits[0]


def coq_pins(pins):
    out = ["From Coq Require Import String.", "Open Scope string_scope."]
    for name, (region, dg) in pins.items():
        out.append(f"(* {region} *)")
        out.append(f'Definition {name} : string := "{dg}".')
    out.append("Close Scope string_scope.")
    return "\n".join(out) + "\n"
