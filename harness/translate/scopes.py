"""Translator: pyanalyze/stacked_scopes.py (FunctionScope operations) and
pyanalyze/name_check_visitor.py (control-flow visitors) -> coq/theories/Gen/Scopes.v  (C09).

Every anchored function is reduced to its *scope program*: the nesting and order of
subscope / loop_scope / suppressing_subscope blocks, combine_subscopes calls with their
argument lists, visits of statement lists, LEAVES_SCOPE / LEAVES_LOOP markers, the
conditions that guard them, list bookkeeping (except_scopes.append ...), and -- for the
FunctionScope operations -- the dict manipulations (copies without a pseudo-variable,
the merge with the uninitialized default, dict.update ...), each recognised structurally
and emitted as a canonical token.  Everything that does not touch the scope machinery
(constraints, yield checks, error reporting, value computation, comments, docstrings,
annotations) is dropped, and names bound by `with ... as` / list variables are
alpha-normalised, so behaviour-preserving edits outside the scope logic translate to
the same term.  A statement that touches the scope machinery in a shape that is not
recognised is kept verbatim (normalised source text), so that any change to it changes
the generated term.  Generated obligations: gen_<fn> = exp_<fn> (Scopes/Shapes.v), and the
interpretation lemmas of Scopes/ShapeSem.v are stated over exp_<fn>.
"""
from __future__ import annotations

import ast
import re
from pathlib import Path


class TranslateError(Exception):
    pass


SCOPE_WORDS = re.compile(
    r"scopes\.|subscope|loop_scope|LEAVES_SCOPE|LEAVES_LOOP|current_loop_scopes|name_to_current_definition_nodes|"
    r"usage_to_definition_nodes|assignment_recorders|_UNINITIALIZED|get_combined_scope|combine_subscopes|"
    r"_handle_loop_else|visit_try_except|visit_single_cm|_generic_visit_list|uniq_chain"
)

SCOPE_FNS = [
    "subscope", "loop_scope", "get_combined_scope", "combine_subscopes", "suppressing_subscope", "set", "get_local",
    "_add_single_constraint",
]
VISITOR_FNS = [
    "visit_If", "visit_While", "visit_For", "_handle_loop_else", "visit_try_except", "visit_Try",
    "visit_With", "visit_single_cm", "visit_Break", "visit_Continue", "visit_Return", "visit_Raise",
]


def up(e):
    return re.sub(r"\s+", " ", ast.unparse(e)).strip()


def touches(node):
    return bool(SCOPE_WORDS.search(ast.unparse(node)))


class Walker:
    def __init__(self, fname):
        self.fname = fname
        self.names = {}  # alpha-normalisation of bound scope / list names

    def bind(self, name):
        if name not in self.names:
            self.names[name] = f"s{len(self.names) + 1}"
        return self.names[name]

    def nm(self, name):
        return self.names.get(name, name)

    def text(self, e):
        """normalised source text with bound names replaced"""
        t = up(e)
        for k, v in self.names.items():
            t = re.sub(rf"\b{re.escape(k)}\b", v, t)
        return t

    # ---- recognisers for dict manipulations -------------------------------------------------
    def copy_without(self, e):
        """{k: v for k, v in X.items() if k != C [and k != D]}  ->  (X text, [C, D])"""
        if not isinstance(e, ast.DictComp) or len(e.generators) != 1:
            return None
        g = e.generators[0]
        if not (isinstance(g.target, ast.Tuple) and len(g.target.elts) == 2 and all(isinstance(x, ast.Name) for x in g.target.elts)):
            return None
        k, v = (x.id for x in g.target.elts)
        if not (isinstance(g.iter, ast.Call) and isinstance(g.iter.func, ast.Attribute) and g.iter.func.attr == "items" and not g.iter.args):
            return None
        if not (isinstance(e.key, ast.Name) and e.key.id == k):
            return None
        dedup = False
        if isinstance(e.value, ast.Name) and e.value.id == v:
            pass
        elif up(e.value) == f"list(OrderedDict.fromkeys({v}))":
            dedup = True
        else:
            return None
        if len(g.ifs) != 1:
            return None
        conds = g.ifs[0].values if isinstance(g.ifs[0], ast.BoolOp) and isinstance(g.ifs[0].op, ast.And) else [g.ifs[0]]
        excl = []
        for c in conds:
            if isinstance(c, ast.Compare) and len(c.ops) == 1 and isinstance(c.ops[0], ast.NotEq) and isinstance(c.left, ast.Name) and c.left.id == k and isinstance(c.comparators[0], ast.Name):
                excl.append(c.comparators[0].id)
            else:
                return None
        return self.text(g.iter.func.value), sorted(excl), dedup

    def value_token(self, e):
        cw = self.copy_without(e)
        if cw:
            base, excl, dedup = cw
            return f"copy of {base} without {'+'.join(excl)}" + (" (nodes deduplicated, order kept)" if dedup else "")
        if isinstance(e, ast.Call) and up(e.func) == "defaultdict" and len(e.args) == 2 and up(e.args[0]) == "list":
            return self.value_token(e.args[1])
        if isinstance(e, ast.DictComp) and len(e.generators) == 1 and isinstance(e.value, ast.List) and all(isinstance(x, ast.Starred) for x in e.value.elts):
            parts = []
            for x in e.value.elts:
                c = x.value
                if isinstance(c, ast.Call) and isinstance(c.func, ast.Attribute) and c.func.attr == "get" and len(c.args) == 2 and up(c.args[1]) == "[]":
                    parts.append(self.text(c.func.value))
                else:
                    return None
            return "per key of " + self.text(e.generators[0].iter) + ": " + " ++ ".join(f"{p}.get(key, [])" for p in parts)
        if isinstance(e, ast.DictComp) and len(e.generators) == 1 and isinstance(e.value, ast.Call) and up(e.value.func) == "uniq_chain":
            inner = e.value.args[0]
            if isinstance(inner, ast.GeneratorExp) and len(inner.generators) == 1:
                c = inner.elt
                if isinstance(c, ast.Call) and isinstance(c.func, ast.Attribute) and c.func.attr == "get" and len(c.args) == 2:
                    return f"per key of {self.text(e.generators[0].iter)}: uniq_chain of scope.get(key, {up(c.args[1])}) over {self.text(inner.generators[0].iter)}"
            return None
        if isinstance(e, ast.Call) and up(e.func) == "dict.fromkeys" and len(e.args) == 1:
            return "ordered keys of " + self.text(e.args[0])
        return None

    # ---- statements -------------------------------------------------------------------------
    def block(self, stmts):
        out = []
        for s in stmts:
            out.extend(self.stmt(s))
        return out

    def stmt(self, s):
        if isinstance(s, ast.Expr) and isinstance(s.value, ast.Constant):
            return []
        if isinstance(s, ast.With):
            return self.with_items(list(s.items), s.body, s)
        if isinstance(s, ast.Expr) and isinstance(s.value, (ast.Yield,)):
            v = s.value.value
            return [("PYield", self.nm(v.id) if isinstance(v, ast.Name) else (up(v) if v is not None else ""))]
        if isinstance(s, ast.Expr) and isinstance(s.value, ast.Call):
            return self.call(s.value, s)
        if isinstance(s, (ast.Assign, ast.AnnAssign)):
            return self.assign(s)
        if isinstance(s, ast.AugAssign):
            if touches(s):
                return [("PTok", self.text(s))]
            return []
        if isinstance(s, ast.If):
            a = self.block(s.body)
            b = self.block(s.orelse)
            if a or b or touches(s.test):
                return [("PIf", self.text(s.test), a, b)]
            return []
        if isinstance(s, (ast.For, ast.AsyncFor)):
            b = self.block(s.body)
            if not b and touches(s.iter):
                b = [("PTok", self.text(x)) for x in s.body]
            if b:
                return [("PFor", self.text(s.target) + " in " + self.text(s.iter), b)]
            return []
        if isinstance(s, ast.Try):
            b = self.block(s.body)
            f = self.block(s.finalbody)
            if s.handlers or s.orelse:
                if touches(s):
                    return [("PTok", "raw: " + self.text(s))]
                return []
            return b + ([("PTok", "finally:")] + f if f else [])
        if isinstance(s, ast.Return):
            if s.value is not None and touches(s.value):
                return [("PTok", "return " + self.text(s.value))]
            return [("PTok", "return")] if self.in_scope_context else []
        if touches(s):
            return [("PTok", "raw: " + self.text(s))]
        return []

    in_scope_context = False

    def with_items(self, items, body, node):
        if not items:
            return self.block(body)
        it = items[0]
        ctx = up(it.context_expr)
        name = it.optional_vars.id if isinstance(it.optional_vars, ast.Name) else None
        kind = None
        if re.fullmatch(r"self(\.scopes)?\.subscope\(\)", ctx) or ctx.startswith("self._subscope_and_maybe_supress("):
            kind = "PSub"
        elif re.fullmatch(r"self(\.scopes)?\.loop_scope\(\)", ctx):
            kind = "PLoopScope"
        elif re.fullmatch(r"self(\.scopes)?\.suppressing_subscope\(\)", ctx):
            kind = "PSupp"
        if kind:
            bound = self.bind(name) if name else "_"
            return [(kind, bound, self.with_items(items[1:], body, node))]
        m = re.fullmatch(r"qcore\.override\(self, '(\w+)', (.+)\)", ctx)
        if m and m.group(1) in ("current_loop_scopes", "name_to_current_definition_nodes"):
            return [("PTok", f"during the block {m.group(1)} := {self.text(it.context_expr.args[2])}")] + self.with_items(items[1:], body, node)
        if touches(it.context_expr):
            return [("PTok", "raw with: " + self.text(it.context_expr))] + self.with_items(items[1:], body, node)
        return self.with_items(items[1:], body, node)  # transparent context manager

    def call(self, c, node):
        f = up(c.func)
        if re.fullmatch(r"self(\.scopes)?\.combine_subscopes", f):
            if c.keywords or len(c.args) != 1:
                return [("PTok", "raw: " + self.text(node))]
            a = c.args[0]
            args = []
            if isinstance(a, ast.List):
                for e in a.elts:
                    if isinstance(e, ast.Name):
                        args.append(self.nm(e.id))
                    elif isinstance(e, ast.Starred) and isinstance(e.value, ast.Name):
                        args.append("*" + self.nm(e.value.id))
                    else:
                        return [("PTok", "raw: " + self.text(node))]
            elif isinstance(a, ast.Name):
                args.append("*" + self.nm(a.id))
            elif isinstance(a, ast.ListComp) and len(a.generators) == 1 and self.copy_without(a.elt):
                base, excl, _ = self.copy_without(a.elt)
                args.append(f"*[copy of {base} without {'+'.join(excl)} for {self.text(a.generators[0].target)} in {self.text(a.generators[0].iter)}]")
            else:
                return [("PTok", "raw: " + self.text(node))]
            return [("PCombine", args)]
        if f == "self._generic_visit_list" and len(c.args) == 1:
            a = c.args[0]
            return [("PVisit", a.attr if isinstance(a, ast.Attribute) else self.text(a))]
        if f == "self.visit" and len(c.args) == 1 and up(c.args[0]) in ("node.target", "handler"):
            return [("PVisit", up(c.args[0]).split(".")[-1])]
        if f == "self._set_name_in_scope" and c.args and up(c.args[0]) in ("LEAVES_SCOPE", "LEAVES_LOOP"):
            return [("PMark", up(c.args[0]))]
        if f in ("self._handle_loop_else", "self.visit_try_except", "self.visit_single_cm"):
            return [("PCall", f[5:] + "(" + ", ".join(self.text(a) for a in c.args) + ")")]
        if isinstance(c.func, ast.Attribute) and c.func.attr == "append" and isinstance(c.func.value, ast.Name) and c.func.value.id in self.names and len(c.args) == 1:
            return [("PAppend", self.nm(c.func.value.id), self.text(c.args[0]))]
        if touches(node):
            return [("PTok", self.text(node))]
        return []

    def assign(self, s):
        value = s.value
        targets = s.targets if isinstance(s, ast.Assign) else [s.target]
        if value is None or len(targets) != 1:
            return []
        t = targets[0]
        if isinstance(t, ast.Name):
            if isinstance(value, (ast.List, ast.Dict)) and not (value.elts if isinstance(value, ast.List) else value.keys):
                if not isinstance(value, ast.Dict) or touches(s) or self.in_scope_context:
                    return [("PLet", self.bind(t.id), [])]
            if isinstance(value, ast.List) and all(isinstance(e, (ast.Name, ast.Starred)) for e in value.elts) and touches(s):
                vals = [self.nm(e.id) if isinstance(e, ast.Name) else "*" + self.text(e.value) for e in value.elts]
                return [("PLet", self.bind(t.id), vals)]
            tok = self.value_token(value)
            if tok:
                return [("PTok", f"{self.bind(t.id)} := {tok}")]
        if touches(s):
            return [("PTok", self.text(s))]
        return []


def scope_program(fn: ast.FunctionDef, scope_context: bool):
    w = Walker(fn.name)
    w.in_scope_context = scope_context
    return w.block(fn.body)


# ---- emission ---------------------------------------------------------------------------------


def q(s):
    return '"' + s.replace('"', '""') + '"'


def emit(p, ind=2):
    pad = " " * ind
    k = p[0]
    if k in ("PSub", "PLoopScope", "PSupp"):
        return f"{pad}{k} {q(p[1])} {emit_list(p[2], ind + 2)}"
    if k == "PCombine":
        return f"{pad}PCombine [" + "; ".join(q(a) for a in p[1]) + "]"
    if k in ("PVisit", "PMark", "PCall", "PYield", "PTok"):
        return f"{pad}{k} {q(p[1])}"
    if k == "PIf":
        return f"{pad}PIf {q(p[1])} {emit_list(p[2], ind + 2)} {emit_list(p[3], ind + 2)}"
    if k == "PFor":
        return f"{pad}PFor {q(p[1])} {emit_list(p[2], ind + 2)}"
    if k == "PLet":
        return f"{pad}PLet {q(p[1])} [" + "; ".join(q(a) for a in p[2]) + "]"
    if k == "PAppend":
        return f"{pad}PAppend {q(p[1])} {q(p[2])}"
    raise TranslateError(f"cannot emit {p!r}")


def emit_list(ps, ind):
    if not ps:
        return "[]"
    return "[\n" + ";\n".join(emit(p, ind) for p in ps) + "]"


def find_functions(repo):
    out = {}
    src = Path(repo, "pyanalyze", "stacked_scopes.py").read_text()
    for c in ast.parse(src).body:
        if isinstance(c, ast.ClassDef) and c.name == "FunctionScope":
            for f in c.body:
                if isinstance(f, ast.FunctionDef) and f.name in SCOPE_FNS:
                    out["scope_" + f.name] = (f, True)
    src = Path(repo, "pyanalyze", "name_check_visitor.py").read_text()
    for c in ast.parse(src).body:
        if isinstance(c, ast.ClassDef) and c.name == "NameCheckVisitor":
            for f in c.body:
                if isinstance(f, ast.FunctionDef) and f.name in VISITOR_FNS:
                    out[f.name if f.name.startswith("visit") else "visit" + f.name] = (f, True)
    want = {"scope_" + n for n in SCOPE_FNS} | {n if n.startswith("visit") else "visit" + n for n in VISITOR_FNS}
    missing = sorted(want - set(out))
    if missing:
        raise TranslateError("anchored functions not found: " + ", ".join(missing))
    return out


def programs(repo):
    return {name: scope_program(fn, ctx) for name, (fn, ctx) in sorted(find_functions(repo).items())}


def render(repo, prefix):
    lines = []
    for name, prog in programs(repo).items():
        lines.append(f"Definition {prefix}_{name} : list sop :=\n  {emit_list(prog, 2)}.\n")
    return "\n".join(lines)


HEADER = """(* GENERATED by harness/translate/scopes.py from pyanalyze/stacked_scopes.py and
   pyanalyze/name_check_visitor.py -- do not edit.  The scope program of every anchored
   function, and the obligation that it is the one the model was written for. *)
From Coq Require Import String List.
Import ListNotations.
Require Import PV.Scopes.Sop PV.Scopes.Shapes.
Open Scope string_scope.

"""


def translate(repo):
    progs = programs(repo)
    out = [HEADER]
    for name, prog in progs.items():
        out.append(f"Definition gen_{name} : list sop :=\n  {emit_list(prog, 2)}.\n")
    for name in progs:
        out.append(f"Lemma gen_{name}_is_expected : gen_{name} = exp_{name}.\nProof. reflexivity. Qed.\n")
    return "\n".join(out)


def expected_file(repo):
    """text of Scopes/Shapes.v (run by hand when the model is moved to a new source shape)"""
    return (
        "(* Scopes/Shapes.v -- the scope programs (see harness/translate/scopes.py) of the anchored\n"
        "   pyanalyze functions that Scopes/Analysis.v was written for.  Written by\n"
        "   `python harness/translate/scopes.py --expected`; reviewed by hand against Analysis.v. *)\n"
        "From Coq Require Import String List.\nImport ListNotations.\nRequire Import PV.Scopes.Sop.\nOpen Scope string_scope.\n\n"
        + render(repo, "exp")
    )


if __name__ == "__main__":
    import os
    import sys

    repo = os.environ.get("VERIF_REPO", "/repo")
    if "--expected" in sys.argv:
        print(expected_file(repo))
    else:
        print(translate(repo))
