"""Translator: site inventory for C10  ->  coq/theories/Gen/Sites.v

Walks the seven files anchored by C10 and lists every place where a value of
*set kind* (set / frozenset / set-operation result / dict-keys difference, or a
dict whose values are sets) is **consumed**: iterated by a `for`, a
comprehension, `list()/tuple()/sorted()/join()/map()/next(iter())/min()/…`,
star-unpacked, `pop()`ed, tested for membership / truth / equality, mutated,
or passed to another callable.

Set kind is decided syntactically and by annotations (fail-closed in the sense
that every occurrence of a set-kind expression must sit in a context the
walker knows; an unknown context raises TranslateError):

  * expressions: `set(..)`, `frozenset(..)`, `{a, b}`, set comprehensions,
    `A - B`, `A | B`, `A & B`, `A ^ B` with a set-kind operand or a
    `.keys()`/`.items()` operand, `.copy()/.union()/.difference()/…` on a set;
  * local names: assigned / annotated / augmented with a set-kind expression
    anywhere in the same function, parameters annotated with a set type;
  * attributes: any `.name` whose name is annotated with a set type in a class
    body or assigned a set-kind expression (`self.name = set()`) in any of
    the seven files;
  * calls: functions / methods (by bare name) whose return annotation is a set
    type in any of the seven files;
  * dict-of-set: `defaultdict(set)`, annotations `dict[K, set[..]]`, dict
    comprehensions with set-kind values; subscripting / `.get()` /
    `.setdefault()` / iterating `.values()` / `.items()` yields sets.

A site is identified by (file, enclosing qualified name, context kind, source
text of the set expression, ordinal among identical keys) -- no line numbers,
so moving code does not change the inventory, while adding, removing or
rewriting a consumer does.
"""
from __future__ import annotations

import ast
from pathlib import Path

FILES = [
    "value.py",
    "stacked_scopes.py",
    "signature.py",
    "type_object.py",
    "checker.py",
    "name_check_visitor.py",
    "arg_spec.py",
]

# phase 2: the rest of the package (everything that is not a test module) is inventoried
# as well; the property anchors the seven files above, but set iteration anywhere in the
# checker can reach a diagnostic (format_strings.py and typeshed.py did)
NOT_INVENTORIED = {"tests.py", "conftest.py", "__main__.py"}


def all_files(repo):
    base = Path(repo) / "pyanalyze"
    extra = sorted(
        p.name for p in base.glob("*.py")
        if p.name not in FILES and not p.name.startswith("test_") and p.name not in NOT_INVENTORIED
    )
    return FILES + extra


SET_TYPE_NAMES = {"set", "Set", "frozenset", "FrozenSet", "AbstractSet", "MutableSet"}
DICT_TYPE_NAMES = {"dict", "Dict", "defaultdict", "DefaultDict", "Mapping", "MutableMapping", "OrderedDict"}
SET_RETURNING_METHODS = {"copy", "union", "difference", "intersection", "symmetric_difference"}
MODULE_NAMES = {"typing", "typing_extensions", "collections", "itertools", "functools", "ast", "inspect", "qcore", "os", "sys",
                "re", "types", "builtins", "enum", "contextlib", "textwrap", "typeshed_client", "asynq"}
SET_MUTATORS = {"add", "update", "discard", "remove", "clear", "difference_update", "intersection_update",
                "symmetric_difference_update"}
SET_PREDICATES = {"issubset", "issuperset", "isdisjoint"}


class TranslateError(Exception):
    pass


def _ann_kind(ann, aliases):
    """kind of an annotation expression: 'set', 'dictofset' or None."""
    if ann is None:
        return None
    if isinstance(ann, ast.Constant) and isinstance(ann.value, str):
        try:
            ann = ast.parse(ann.value, mode="eval").body
        except SyntaxError:
            return None
    if isinstance(ann, ast.Name):
        if ann.id in SET_TYPE_NAMES:
            return "set"
        return aliases.get(ann.id)
    if isinstance(ann, ast.Attribute):
        root = ann.value
        while isinstance(root, ast.Attribute):
            root = root.value
        if isinstance(root, ast.Name) and root.id == "ast":
            return None  # ast.Set is a syntax node, not a set
        if ann.attr in SET_TYPE_NAMES:
            return "set"
        return aliases.get(ann.attr)
    if isinstance(ann, ast.Subscript):
        base = ann.value
        bname = base.id if isinstance(base, ast.Name) else base.attr if isinstance(base, ast.Attribute) else None
        if bname in SET_TYPE_NAMES:
            return "set"
        if bname in DICT_TYPE_NAMES:
            sl = ann.slice
            if isinstance(sl, ast.Tuple) and len(sl.elts) == 2 and _ann_kind(sl.elts[1], aliases) == "set":
                return "dictofset"
            return None
        if bname in ("Optional", "Final", "ClassVar", "Annotated"):
            sl = ann.slice
            if isinstance(sl, ast.Tuple):
                sl = sl.elts[0]
            return _ann_kind(sl, aliases)
        if bname == "Union":
            sl = ann.slice
            elts = sl.elts if isinstance(sl, ast.Tuple) else [sl]
            for e in elts:
                k = _ann_kind(e, aliases)
                if k:
                    return k
        return None
    if isinstance(ann, ast.BinOp) and isinstance(ann.op, ast.BitOr):
        return _ann_kind(ann.left, aliases) or _ann_kind(ann.right, aliases)
    return None


class Env:
    """Name-based facts gathered over all seven files."""

    def __init__(self):
        self.aliases = {}  # type alias name -> kind
        self.attrs = {}  # attribute name -> kind
        self.funcs = {}  # module-level function name -> kind of the return value (matches f(..))
        self.methods = {}  # method name -> kind of the return value (matches x.f(..))


def _func_name(f):
    if isinstance(f, ast.Name):
        return f.id
    if isinstance(f, ast.Attribute):
        return f.attr
    return None


def expr_kind(e, env: Env, local):
    """'set' | 'dictofset' | None for an expression."""
    if isinstance(e, (ast.Set, ast.SetComp)):
        return "set"
    if isinstance(e, ast.Name):
        return local.get(e.id)
    if isinstance(e, ast.Attribute):
        return env.attrs.get(e.attr)
    if isinstance(e, ast.NamedExpr):
        return expr_kind(e.value, env, local)
    if isinstance(e, ast.IfExp):
        return expr_kind(e.body, env, local) or expr_kind(e.orelse, env, local)
    if isinstance(e, ast.BinOp) and isinstance(e.op, (ast.Sub, ast.BitOr, ast.BitAnd, ast.BitXor)):
        for side in (e.left, e.right):
            if expr_kind(side, env, local) == "set":
                return "set"
            if (
                isinstance(side, ast.Call)
                and isinstance(side.func, ast.Attribute)
                and side.func.attr in ("keys", "items")
                and not side.args
            ):
                return "set"
        return None
    if isinstance(e, ast.DictComp):
        return "dictofset" if expr_kind(e.value, env, _comp_locals(e, env, local)) == "set" else None
    if isinstance(e, ast.Dict):
        if e.values and all(v is not None and expr_kind(v, env, local) == "set" for v in e.values):
            return "dictofset"
        return None
    if isinstance(e, ast.Subscript):
        if expr_kind(e.value, env, local) == "dictofset":
            return "set"
        return None
    if isinstance(e, ast.Call):
        fn = _func_name(e.func)
        if isinstance(e.func, ast.Name) and fn in ("set", "frozenset"):
            return "set"
        if isinstance(e.func, ast.Name) and fn == "defaultdict" and e.args:
            a0 = e.args[0]
            if isinstance(a0, ast.Name) and a0.id in ("set", "frozenset"):
                return "dictofset"
            return None
        if isinstance(e.func, ast.Attribute) and isinstance(e.func.value, ast.Name):
            if e.func.value.id in ("set", "frozenset") and fn in SET_RETURNING_METHODS:
                return "set"  # set.intersection(*sets), set.union(...)
            if e.func.value.id in MODULE_NAMES:
                return None  # typing_extensions.get_origin(...) is not FunctionScope.get_origin
        if isinstance(e.func, ast.Attribute):
            recv = expr_kind(e.func.value, env, local)
            if recv == "set" and fn in SET_RETURNING_METHODS:
                return "set"
            if recv == "dictofset" and fn in ("get", "setdefault", "pop"):
                return "set"
            if recv == "dictofset" and fn == "copy":
                return "dictofset"
            if recv is not None:
                return None
        if isinstance(e.func, ast.Name):
            return env.funcs.get(fn)
        if isinstance(e.func, ast.Attribute):
            return env.methods.get(fn)
        return None
    return None


def _bind_target(t, kind, local):
    if kind and isinstance(t, ast.Name):
        local[t.id] = kind


def _comp_locals(comp, env, local):
    loc = dict(local)
    for g in comp.generators:
        _bind_iter_target(g.target, g.iter, env, loc)
    return loc


def _bind_iter_target(target, it, env, loc):
    """for <target> in <it>: bind names that receive sets (iteration over the
    values / items of a dict-of-set)."""
    if isinstance(it, ast.Call) and isinstance(it.func, ast.Attribute) and not it.args:
        recv = expr_kind(it.func.value, env, loc)
        if recv == "dictofset":
            if it.func.attr == "values":
                _bind_target(target, "set", loc)
            elif it.func.attr == "items" and isinstance(target, ast.Tuple) and len(target.elts) == 2:
                _bind_target(target.elts[1], "set", loc)


def gather(trees) -> Env:
    env = Env()
    # type aliases at module level (e.g. VarnameOrigin = frozenset[...])
    for _, tree in trees:
        for st in tree.body:
            if isinstance(st, ast.Assign) and len(st.targets) == 1 and isinstance(st.targets[0], ast.Name):
                k = _ann_kind(st.value, env.aliases) if isinstance(st.value, (ast.Subscript, ast.Name)) else None
                if k and isinstance(st.value, ast.Subscript):
                    env.aliases[st.targets[0].id] = k
    # two rounds so that facts feed each other (attrs assigned from set-returning calls)
    for _ in range(2):
        for _, tree in trees:
            for node in ast.walk(tree):
                if isinstance(node, (ast.FunctionDef, ast.AsyncFunctionDef)):
                    k = _ann_kind(node.returns, env.aliases)
                    if k and node.name not in env.methods:
                        env.funcs[node.name] = k
                elif isinstance(node, ast.ClassDef):
                    for st in node.body:
                        if isinstance(st, (ast.FunctionDef, ast.AsyncFunctionDef)):
                            k = _ann_kind(st.returns, env.aliases)
                            if k:
                                env.methods[st.name] = k
                                env.funcs.pop(st.name, None)
                    for st in node.body:
                        if isinstance(st, ast.AnnAssign) and isinstance(st.target, ast.Name):
                            k = _ann_kind(st.annotation, env.aliases)
                            if k:
                                env.attrs[st.target.id] = k
                elif isinstance(node, ast.AnnAssign) and isinstance(node.target, ast.Attribute):
                    k = _ann_kind(node.annotation, env.aliases)
                    if k:
                        env.attrs[node.target.attr] = k
                elif isinstance(node, ast.Assign):
                    for t in node.targets:
                        if isinstance(t, ast.Attribute):
                            k = expr_kind(node.value, env, {})
                            if k:
                                env.attrs[t.attr] = k
    return env


def function_locals(fn, env: Env):
    """Flow-insensitive: a local name has set kind if any binding gives it one."""
    local = {}
    args = fn.args
    for a in [*args.posonlyargs, *args.args, *args.kwonlyargs, args.vararg, args.kwarg]:
        if a is not None:
            k = _ann_kind(a.annotation, env.aliases)
            if k:
                local[a.arg] = k
    for _ in range(3):
        for node in _walk_same_function(fn):
            if isinstance(node, ast.Assign):
                k = expr_kind(node.value, env, local)
                for t in node.targets:
                    _bind_target(t, k, local)
            elif isinstance(node, ast.AnnAssign):
                k = _ann_kind(node.annotation, env.aliases) or (
                    expr_kind(node.value, env, local) if node.value is not None else None
                )
                _bind_target(node.target, k, local)
            elif isinstance(node, ast.AugAssign):
                if isinstance(node.op, (ast.BitOr, ast.BitAnd, ast.Sub, ast.BitXor)):
                    _bind_target(node.target, expr_kind(node.value, env, local), local)
            elif isinstance(node, ast.NamedExpr):
                _bind_target(node.target, expr_kind(node.value, env, local), local)
            elif isinstance(node, (ast.For, ast.AsyncFor)):
                _bind_iter_target(node.target, node.iter, env, local)
            elif isinstance(node, ast.comprehension):
                _bind_iter_target(node.target, node.iter, env, local)
            elif isinstance(node, ast.withitem) and node.optional_vars is not None:
                _bind_target(node.optional_vars, expr_kind(node.context_expr, env, local), local)
    return local


def _walk_same_function(fn):
    """ast.walk that does not descend into nested function / class definitions."""
    todo = list(ast.iter_child_nodes(fn))
    while todo:
        n = todo.pop()
        yield n
        if isinstance(n, (ast.FunctionDef, ast.AsyncFunctionDef, ast.ClassDef, ast.Lambda)):
            continue
        todo.extend(ast.iter_child_nodes(n))


# ---------------------------------------------------------------------------
# contexts


WRAPPERS = {"any", "all", "set", "frozenset", "sorted", "sum", "min", "max", "list", "tuple", "len", "dict",
            "next", "iter", "map", "filter", "enumerate", "zip", "reversed", "join", "unite_values", "bool",
            "from_iterable", "chain", "isinstance", "repr", "str", "print", "uniq_chain", "fromkeys"}


def _context(node, parent, grand):
    """Context kind of set-kind expression `node` whose AST parent is `parent`."""
    P = type(parent).__name__
    if isinstance(parent, (ast.For, ast.AsyncFor)):
        if parent.iter is node:
            return "for"
        return "other:For"
    if isinstance(parent, ast.comprehension):
        if parent.iter is node:
            comp = grand
            kind = type(comp).__name__
            return "comp:" + kind
        return "truth"  # an `if` clause of a comprehension
    if isinstance(parent, ast.Starred):
        return "star"
    if isinstance(parent, ast.Call):
        if parent.func is node:
            return "other:called"
        fn = _func_name(parent.func) or "?"
        return "call:" + fn
    if isinstance(parent, ast.keyword):
        return "kwarg:" + (parent.arg or "**")
    if isinstance(parent, ast.Attribute):
        # method call / attribute read on the set
        return "method:" + parent.attr
    if isinstance(parent, ast.Compare):
        idx = None
        if parent.left is node:
            idx = -1
        for i, c in enumerate(parent.comparators):
            if c is node:
                idx = i
        if idx is not None and idx >= 0 and isinstance(parent.ops[idx], (ast.In, ast.NotIn)):
            return "in"
        return "cmp"
    if isinstance(parent, (ast.BoolOp, ast.If, ast.While, ast.Assert)):
        return "truth"
    if isinstance(parent, ast.IfExp):
        return "truth" if parent.test is node else "flow"
    if isinstance(parent, ast.UnaryOp) and isinstance(parent.op, ast.Not):
        return "truth"
    if isinstance(parent, ast.BinOp):
        return "setop"
    if isinstance(parent, (ast.Assign, ast.AnnAssign, ast.AugAssign, ast.Return, ast.NamedExpr, ast.Yield)):
        return "flow"
    if isinstance(parent, ast.Subscript):
        return "flow" if parent.value is node else "other:index"
    if isinstance(parent, (ast.Dict, ast.DictComp, ast.Tuple, ast.List)):
        return "stored:" + P
    if isinstance(parent, (ast.ListComp, ast.GeneratorExp, ast.SetComp)) and parent.elt is node:
        return "elt:" + P
    if isinstance(parent, ast.Expr):
        return "flow"
    if isinstance(parent, ast.withitem):
        return "flow"
    if isinstance(parent, ast.FormattedValue):
        return "format"
    if isinstance(parent, ast.arguments):
        return "flow"  # a default value
    if isinstance(parent, ast.Lambda):
        return "flow"  # the value a lambda returns
    return "other:" + P


def scan_file(path: Path, fname: str, env: Env):
    tree = ast.parse(path.read_text())
    parents = {}
    for n in ast.walk(tree):
        for c in ast.iter_child_nodes(n):
            parents[c] = n
    sites = []

    def qual(node):
        names = []
        n = node
        while n in parents:
            n = parents[n]
            if isinstance(n, (ast.FunctionDef, ast.AsyncFunctionDef, ast.ClassDef)):
                names.append(n.name)
        return ".".join(reversed(names)) or "<module>"

    def enclosing_function(node):
        n = node
        while n in parents:
            n = parents[n]
            if isinstance(n, (ast.FunctionDef, ast.AsyncFunctionDef)):
                return n
        return None

    local_cache = {}

    def locals_for(node):
        fn = enclosing_function(node)
        if fn is None:
            return {}
        if fn not in local_cache:
            loc = function_locals(fn, env)
            # closures see the enclosing function's locals
            outer = enclosing_function(fn)
            while outer is not None:
                if outer not in local_cache:
                    local_cache[outer] = function_locals(outer, env)
                for k, v in local_cache[outer].items():
                    loc.setdefault(k, v)
                outer = enclosing_function(outer)
            local_cache[fn] = loc
        loc = local_cache[fn]
        # comprehension-bound names
        n = node
        extra = None
        while n in parents and not isinstance(n, (ast.FunctionDef, ast.AsyncFunctionDef)):
            p = parents[n]
            if isinstance(p, (ast.ListComp, ast.SetComp, ast.DictComp, ast.GeneratorExp)):
                if extra is None:
                    extra = dict(loc)
                for g in p.generators:
                    if g.iter is n:
                        break
                    _bind_iter_target(g.target, g.iter, env, extra)
            n = p
        return extra if extra is not None else loc

    for node in ast.walk(tree):
        if not isinstance(node, ast.expr):
            continue
        if isinstance(node, (ast.Name, ast.Attribute)) and isinstance(getattr(node, "ctx", None), (ast.Store, ast.Del)):
            continue
        parent = parents.get(node)
        if parent is None:
            continue
        # annotations are not expressions evaluated on values
        if _in_annotation(node, parents):
            continue
        loc = locals_for(node)
        k = expr_kind(node, env, loc)
        if k is None:
            continue
        grand = parents.get(parent)
        ctx = _context(node, parent, grand)
        if k == "dictofset":
            # the dict itself is insertion ordered; only contexts that reach the
            # inner sets matter and those are separate set-kind expressions
            continue
        wrapper = ""
        if ctx.startswith("comp:"):
            wrapper = _wrapper_chain(grand, parents)
            if wrapper.split(">")[0] in ("any", "all", "next") and _has_effectful_call(grand):
                # short-circuiting consumer with a body that may have side effects: which
                # elements are evaluated depends on the iteration order
                wrapper = wrapper + "!effects"
        if ctx.startswith("elt:"):
            wrapper = _wrapper_chain(parent, parents)
        if ctx == "star":
            gp = grand
            wrapper = (_func_name(gp.func) or "?") if isinstance(gp, ast.Call) else type(gp).__name__
        if ctx == "call:iter":
            gp = grand
            if isinstance(gp, ast.Call) and parent in gp.args:
                wrapper = _func_name(gp.func) or "?"
                if wrapper == "next" and _guarded_by_len1(node, parents):
                    wrapper = "next@len1"
        if ctx == "call:sorted" and any(kw.arg == "key" for kw in parent.keywords):
            ctx = "call:sorted+key"
        if ctx.startswith("other:"):
            raise TranslateError(f"{fname}:{node.lineno}: set-kind expression `{ast.unparse(node)}` in unknown context {ctx}")
        sites.append(
            {
                "file": fname,
                "func": qual(node),
                "ctx": ctx + ("/" + wrapper if wrapper else ""),
                "expr": ast.unparse(node),
                "line": node.lineno,
            }
        )
    return sites


# calls that neither mutate checker state nor depend on anything but their arguments
PURE_CALLS = {"isinstance", "issubclass", "len", "safe_isinstance", "safe_issubclass", "safe_in", "safe_hasattr", "hasattr",
              "is_typing_name", "is_instance_of_typing_name", "callable", "type", "id", "str", "repr", "bool", "int", "tuple",
              "startswith", "endswith", "get", "_contains_node", "is_union"}


def _has_effectful_call(comp):
    """Does the element expression / a condition of this comprehension call something that
    is not known to be pure?  any()/all() stop at the first decisive element, so with an
    effectful body the ORDER decides which elements are evaluated at all."""
    roots = []
    if isinstance(comp, ast.DictComp):
        roots += [comp.key, comp.value]
    else:
        roots.append(comp.elt)
    for g in comp.generators:
        roots += g.ifs
    for r in roots:
        for n in ast.walk(r):
            if isinstance(n, ast.Call) and _func_name(n.func) not in PURE_CALLS:
                return True
            if isinstance(n, (ast.Await, ast.Yield, ast.YieldFrom, ast.NamedExpr)):
                return True
    return False


def _wrapper_chain(c, parents):
    """names of the calls that directly take `c` (a comprehension) as an
    argument, innermost first: `set(chain.from_iterable(<c>))` -> from_iterable>set"""
    chain = []
    for _ in range(3):
        gp = parents.get(c)
        if isinstance(gp, ast.Call) and c in gp.args:
            name = _func_name(gp.func) or "?"
            if name == "sorted" and any(kw.arg == "key" for kw in gp.keywords):
                name = "sorted+key"
            chain.append(name)
            c = gp
        elif isinstance(gp, ast.Starred):
            chain.append("star")
            c = gp
        else:
            break
    return ">".join(chain)


def _guarded_by_len1(node, parents):
    """True when `node` sits in the body of `if len(<same expr>) == 1:` or in
    the else-part of `... if len(<same expr>) > 1 else ...`."""
    text = ast.unparse(node)
    n = node
    while n in parents:
        p = parents[n]
        if isinstance(p, (ast.FunctionDef, ast.AsyncFunctionDef, ast.Lambda)):
            return False
        if isinstance(p, ast.If) and n in p.body and _is_len_cmp(p.test, text, ast.Eq):
            return True
        if isinstance(p, ast.IfExp) and p.orelse is n and _is_len_cmp(p.test, text, ast.Gt):
            return True
        n = p
    return False


def _is_len_cmp(test, text, op):
    return (
        isinstance(test, ast.Compare)
        and len(test.ops) == 1
        and isinstance(test.ops[0], op)
        and isinstance(test.left, ast.Call)
        and _func_name(test.left.func) == "len"
        and len(test.left.args) == 1
        and ast.unparse(test.left.args[0]) == text
        and isinstance(test.comparators[0], ast.Constant)
        and test.comparators[0].value == 1
    )


def _in_annotation(node, parents):
    n = node
    while n in parents:
        p = parents[n]
        if isinstance(p, ast.AnnAssign) and p.annotation is n:
            return True
        if isinstance(p, ast.arg) and p.annotation is n:
            return True
        if isinstance(p, (ast.FunctionDef, ast.AsyncFunctionDef)) and p.returns is n:
            return True
        if isinstance(p, ast.Call) and _func_name(p.func) == "cast" and p.args and p.args[0] is n:
            return True
        n = p
    return False


# contexts that only bind / combine / mutate / query the set without exposing an order
PASSIVE = {"flow", "setop", "in", "cmp", "truth"}
# mirror of Det/Audit.v `generic` (used only for the developer listing below; the
# Coq definition is the one the obligation is about)
GENERIC = PASSIVE | {
    "method:add", "method:update", "method:discard", "method:remove", "method:clear", "method:copy",
    "method:issubset", "method:issuperset", "method:isdisjoint", "method:union", "method:difference",
    "method:intersection", "call:len", "call:set", "call:frozenset", "call:sorted", "call:update",
    "comp:SetComp", "call:iter/next@len1",
}


def is_generic(ctx):
    if ctx in GENERIC:
        return True
    if "/" in ctx:
        head, chain = ctx.split("/", 1)
        if head.startswith(("comp:GeneratorExp", "comp:ListComp", "elt:GeneratorExp", "elt:ListComp")):
            last = chain.split(">")
            # any wrapper in the chain that forgets the order makes the site order-free
            # (a short-circuiting any/all with an effectful body is marked `!effects` and is not)
            return any(w in ("any", "all", "set", "frozenset", "sorted", "len") for w in last)
    return False


def inventory(repo: str):
    base = Path(repo) / "pyanalyze"
    trees = []
    for f in FILES:
        if not (base / f).exists():
            raise TranslateError(f"anchored file missing: {f}")
    files = all_files(repo)
    for f in files:
        trees.append((f, ast.parse((base / f).read_text())))
    env = gather(trees)
    sites = []
    for f in files:
        sites += scan_file(base / f, f, env)
    # ordinal among identical keys
    seen = {}
    for s in sites:
        key = (s["file"], s["func"], s["ctx"], s["expr"])
        s["ord"] = seen.get(key, 0)
        seen[key] = s["ord"] + 1
    return sites, env


if __name__ == "__main__":
    import sys

    sites, env = inventory(sys.argv[1] if len(sys.argv) > 1 else "/repo")
    print("attrs", env.attrs)
    print("funcs", env.funcs)
    print("methods", env.methods)
    print("aliases", env.aliases)
    n = 0
    for s in sites:
        if is_generic(s["ctx"]):
            continue
        n += 1
        print(f'{s["file"]}:{s["line"]}  {s["func"]}  [{s["ctx"]}]  {s["expr"]}  #{s["ord"]}')
    print(len(sites), "occurrences,", n, "non-passive")


def _cq(s: str) -> str:
    s = s.replace("\n", " ")
    if any(ord(ch) > 126 or ord(ch) < 32 for ch in s):
        raise TranslateError(f"non-printable character in site text: {s!r}")
    return '"' + s.replace('"', '""') + '"'


def allowed_previous(repo: str):
    """signature.KIND_TO_ALLOWED_PREVIOUS as [(kind, [allowed previous kinds])] (names only)"""
    tree = ast.parse((Path(repo) / "pyanalyze" / "signature.py").read_text())
    for st in tree.body:
        tgt = st.targets[0] if isinstance(st, ast.Assign) and len(st.targets) == 1 else getattr(st, "target", None)
        if isinstance(tgt, ast.Name) and tgt.id == "KIND_TO_ALLOWED_PREVIOUS" and isinstance(st.value, ast.Dict):
            out = []
            for k, v in zip(st.value.keys, st.value.values):
                if not (isinstance(k, ast.Attribute) and isinstance(v, ast.Set) and all(isinstance(e, ast.Attribute) for e in v.elts)):
                    raise TranslateError(f"signature.py:{st.lineno}: unsupported entry in KIND_TO_ALLOWED_PREVIOUS")
                out.append((k.attr, [e.attr for e in v.elts]))
            return out
    raise TranslateError("signature.py: KIND_TO_ALLOWED_PREVIOUS not found")


def translate(repo: str) -> str:
    """Text of coq/theories/Gen/Sites.v for the current source."""
    sites, _env = inventory(repo)
    rows = [
        f"  Site {_cq(s['file'])} {_cq(s['func'])} {_cq(s['ctx'])} {_cq(s['expr'])} {s['ord']}"
        for s in sites
    ]
    return (
        "(* GENERATED by harness/translate/sites.py from every non-test module of pyanalyze (the seven files\n"
        "   anchored by C10 first) -- do not edit *)\n"
        "From Coq Require Import String List.\nRequire Import PV.Det.Audit.\nImport ListNotations.\nOpen Scope string_scope.\n\n"
        "Definition sites : list site := [\n" + ";\n".join(rows) + "\n]%list.\n\n"
        "(* signature.KIND_TO_ALLOWED_PREVIOUS (for the audit of Signature.validate's join) *)\n"
        "Definition allowed_previous : list (string * list string) := [\n"
        + ";\n".join("  (" + _cq(k) + ", [" + "; ".join(_cq(x) for x in v) + "])" for k, v in allowed_previous(repo))
        + "\n]%list.\n"
    )
