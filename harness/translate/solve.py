"""Translator: pyanalyze/typevar.py (+ three facts of value.py) -> coq/theories/Gen/Solve.v  (C15).

`solve` is translated statement by statement by a small flow-sensitive
translator:

* the three variables initialised to a marker (`bottom = BOTTOM`, `top = TOP`,
  `options = None`) become `option` variables; a test `x is MARKER` /
  `x is not MARKER` on a variable whose status is not known at that point
  makes the translator emit `match x with None => .. | Some x0 => .. end` and
  re-translate the remaining statements under each assumption with the test
  constant-folded (Python's `and`/`or` short-circuit and the translated
  expressions have no side effects, so the folding preserves meaning);
* using such a variable as a *value* where its status is not known to be
  `Some` is a translation error (fail closed), so the generated model never
  needs a default value;
* the `for bound in bounds:` loop becomes `fold_left loop_body bounds init`,
  the `isinstance(bound, C)` chain a `match` on the bound constructor;
* `a.is_assignable(b, ctx)` and "`a.can_assign(b, ctx)` is not a
  CanAssignError" are both `acc O a b` (Value.is_assignable's body is checked
  to be `isinstance(self.can_assign(other, ctx), dict)`).

`remove_redundant_solutions` and `resolve_bounds_map` are matched against their
exact statement shape (only the redundancy condition and the size limit are
translated).  Anything unexpected raises TranslateError, which the check
reports as a broken obligation.
"""
import ast
import copy
import sys
from pathlib import Path


class TranslateError(Exception):
    pass


class NeedSplit(Exception):
    def __init__(self, var):
        self.var = var


def _fail(node, why):
    raise TranslateError(f"typevar.py:{getattr(node, 'lineno', '?')}: {why}: {ast.dump(node)[:240]}")


CTORS = {
    "LowerBound": ["value"],
    "UpperBound": ["value"],
    "OrBound": [],
    "IsOneOf": ["constraints"],
}
CTOR_ORDER = ["LowerBound", "UpperBound", "OrBound", "IsOneOf"]
ANY_SOURCES = {"generic_argument": "any_generic O", "inference": "any_inference O"}


class Env:
    def __init__(self):
        self.optvars = []  # names, in state-tuple order
        self.marker = {}  # optvar -> marker name ("BOTTOM"/"TOP"/None)
        self.status = {}  # optvar -> None | ("none",) | ("some", gname)
        self.kinds = {}  # plain var -> ("val"|"ca"|"calist", gname)
        self.ctor = None  # (python loop var, constructor name) inside the loop
        self.counter = [0]

    def clone(self):
        e = Env()
        e.optvars = self.optvars
        e.marker = self.marker
        e.status = dict(self.status)
        e.kinds = dict(self.kinds)
        e.ctor = self.ctor
        e.counter = self.counter
        return e

    def fresh(self, base):
        self.counter[0] += 1
        return f"{base}{self.counter[0]}"

    def state_tuple(self):
        parts = []
        for v in self.optvars:
            st = self.status[v]
            if st is None:
                parts.append(v)
            elif st[0] == "none":
                parts.append("None")
            else:
                parts.append(f"Some {st[1]}")
        return "(" + ", ".join(parts) + ")"


def _is_ctx(e):
    return isinstance(e, ast.Name) and e.id == "ctx"


def value_of_name(node, env):
    name = node.id
    if name in env.status:
        st = env.status[name]
        if st is not None and st[0] == "some":
            return st[1]
        _fail(node, f"`{name}` used as a value where it may be its marker")
    if name in env.kinds:
        return env.kinds[name][1]
    _fail(node, "unknown name")


def ex(e, env):
    """Python expression -> Gallina text, or a Python bool when it folds to a constant."""
    if isinstance(e, ast.BoolOp):
        is_and = isinstance(e.op, ast.And)
        parts = []
        for sub in e.values:
            t = ex(sub, env)
            if t is True:
                if is_and:
                    continue
                return True  # `.. or True`: pure operands, so the whole test is true
            if t is False:
                if not is_and:
                    continue
                return False  # `.. and False`: pure operands, so the whole test is false
            parts.append(t)
        if not parts:
            return is_and
        return _join(parts, is_and)
    if isinstance(e, ast.Constant) and isinstance(e.value, bool):
        return e.value
    if isinstance(e, ast.UnaryOp) and isinstance(e.op, ast.Not):
        t = ex(e.operand, env)
        if isinstance(t, bool):
            return not t
        return f"(negb {t})"
    if isinstance(e, ast.Compare) and len(e.ops) == 1 and isinstance(e.ops[0], (ast.Is, ast.IsNot)):
        left, right = e.left, e.comparators[0]
        if isinstance(left, ast.Name) and left.id in env.status:
            m = env.marker[left.id]
            ok = (isinstance(right, ast.Name) and right.id == m) or (
                m is None and isinstance(right, ast.Constant) and right.value is None
            )
            if not ok:
                _fail(e, f"`{left.id}` compared with something other than its marker")
            st = env.status[left.id]
            if st is None:
                raise NeedSplit(left.id)
            is_marker = st[0] == "none"
            return is_marker if isinstance(e.ops[0], ast.Is) else not is_marker
        _fail(e, "unsupported identity test")
    if isinstance(e, ast.Call):
        f = e.func
        if isinstance(f, ast.Name) and f.id == "isinstance" and len(e.args) == 2 and not e.keywords:
            obj, cls = e.args
            if isinstance(cls, ast.Name) and cls.id == "AnyValue":
                return f"(is_any O {val(obj, env)})"
            if isinstance(cls, ast.Name) and cls.id == "CanAssignError":
                if isinstance(obj, ast.Name) and env.kinds.get(obj.id, ("", ""))[0] == "ca":
                    return f"(negb {env.kinds[obj.id][1]})"
            _fail(e, "unsupported isinstance")
        if isinstance(f, ast.Attribute) and f.attr in ("is_assignable", "can_assign"):
            if len(e.args) == 2 and _is_ctx(e.args[1]) and not e.keywords:
                return f"(acc O {val(f.value, env)} {val(e.args[0], env)})"
            _fail(e, "unexpected arguments of is_assignable/can_assign")
        if isinstance(f, ast.Name) and f.id == "unite_values" and len(e.args) == 2 and not e.keywords:
            return f"(unite O {val(e.args[0], env)} {val(e.args[1], env)})"
        if isinstance(f, ast.Name) and f.id == "AnyValue" and len(e.args) == 1 and not e.keywords:
            a = e.args[0]
            if isinstance(a, ast.Attribute) and isinstance(a.value, ast.Name) and a.value.id == "AnySource" and a.attr in ANY_SOURCES:
                return f"({ANY_SOURCES[a.attr]})"
            _fail(e, "unsupported AnyValue source")
        if isinstance(f, ast.Name) and f.id == "all_of_type" and len(e.args) == 2 and not e.keywords:
            lst, cls = e.args
            if (
                isinstance(lst, ast.Name)
                and env.kinds.get(lst.id, ("", ""))[0] == "calist"
                and isinstance(cls, ast.Name)
                and cls.id == "CanAssignError"
            ):
                return f"(forallb negb {env.kinds[lst.id][1]})"
            _fail(e, "unsupported all_of_type")
        if isinstance(f, ast.Name) and f.id == "remove_redundant_solutions" and len(e.args) == 2 and _is_ctx(e.args[1]) and not e.keywords:
            return f"(remove_redundant_solutions {val(e.args[0], env)})"
        _fail(e, "unsupported call")
    if isinstance(e, ast.Attribute) and isinstance(e.value, ast.Name):
        if env.ctor is not None and e.value.id == env.ctor[0]:
            if e.attr in CTORS[env.ctor[1]]:
                return e.attr
            _fail(e, f"field {e.attr} is not a modelled field of {env.ctor[1]}")
        _fail(e, "unsupported attribute")
    if isinstance(e, ast.Name):
        return value_of_name(e, env)
    if isinstance(e, ast.ListComp) and len(e.generators) == 1:
        g = e.generators[0]
        if g.is_async:
            _fail(e, "async comprehension")
        # [E for x in L]
        if isinstance(g.target, ast.Name) and not g.ifs:
            inner = env.clone()
            inner.kinds[g.target.id] = ("val", g.target.id)
            return f"(map (fun {g.target.id} => {val(e.elt, inner)}) {val(g.iter, env)})"
        # [x for x, c in zip(L, CS) if COND]
        if (
            isinstance(g.target, ast.Tuple)
            and len(g.target.elts) == 2
            and all(isinstance(t, ast.Name) for t in g.target.elts)
            and isinstance(g.iter, ast.Call)
            and isinstance(g.iter.func, ast.Name)
            and g.iter.func.id == "zip"
            and len(g.iter.args) == 2
            and len(g.ifs) == 1
        ):
            a, b = (t.id for t in g.target.elts)
            l2 = g.iter.args[1]
            if not (isinstance(l2, ast.Name) and env.kinds.get(l2.id, ("", ""))[0] == "calist"):
                _fail(e, "zip over something other than a list of can_assign results")
            inner = env.clone()
            inner.kinds[a] = ("val", a)
            inner.kinds[b] = ("ca", b)
            cond = ex(g.ifs[0], inner)
            if isinstance(cond, bool):
                _fail(e, "constant filter")
            pat = f"fun '({a}, {b})"
            return f"(map ({pat} => {val(e.elt, inner)}) (filter ({pat} => {cond}) (combine {val(g.iter.args[0], env)} {val(l2, env)})))"
        _fail(e, "unsupported comprehension")
    _fail(e, "unsupported expression")


def _join(parts, is_and):
    if len(parts) == 1:
        return parts[0]
    op = "&&" if is_and else "||"
    return "(" + f" {op} ".join(parts) + ")"


def val(e, env):
    t = ex(e, env)
    if isinstance(t, bool):
        return "true" if t else "false"
    return t


def _is_len_eq_1(test):
    return (
        isinstance(test, ast.Compare)
        and len(test.ops) == 1
        and isinstance(test.ops[0], ast.Eq)
        and isinstance(test.left, ast.Call)
        and isinstance(test.left.func, ast.Name)
        and test.left.func.id == "len"
        and len(test.left.args) == 1
        and isinstance(test.left.args[0], ast.Name)
        and isinstance(test.comparators[0], ast.Constant)
        and test.comparators[0].value == 1
    )


def tr_stmts(stmts, env, mode, ind):
    pad = "  " * ind
    if not stmts:
        if mode == "loop":
            return env.state_tuple()
        raise TranslateError("solve: control falls off the end of the function")
    try:
        return tr_stmt(stmts[0], stmts[1:], env.clone(), mode, ind)
    except NeedSplit as ns:
        x = ns.var
        fresh = env.fresh(x)
        e_none = env.clone()
        e_none.status[x] = ("none",)
        e_some = env.clone()
        e_some.status[x] = ("some", fresh)
        a = tr_stmts(stmts, e_none, mode, ind + 1)
        b = tr_stmts(stmts, e_some, mode, ind + 1)
        return f"match {x} with\n{pad}| None => {a}\n{pad}| Some {fresh} => {b}\n{pad}end"


def tr_stmt(s, rest, env, mode, ind):
    pad = "  " * ind
    if isinstance(s, ast.Pass):
        return tr_stmts(rest, env, mode, ind)
    if isinstance(s, ast.Continue):
        if mode != "loop":
            _fail(s, "continue outside the loop")
        return env.state_tuple()
    if isinstance(s, ast.Return):
        if mode != "func" or s.value is None:
            _fail(s, "unexpected return")
        v = s.value
        if isinstance(v, ast.Call) and isinstance(v.func, ast.Name) and v.func.id == "CanAssignError":
            return "Err"
        return f"Sol {val(v, env)}"
    if isinstance(s, ast.Assign):
        if len(s.targets) != 1 or not isinstance(s.targets[0], ast.Name):
            _fail(s, "unsupported assignment target")
        name = s.targets[0].id
        rhs = s.value
        if name in env.status:
            g = env.fresh(name)
            text = val(rhs, env)
            env.status[name] = ("some", g)
            return f"let {g} := {text} in\n{pad}{tr_stmts(rest, env, mode, ind)}"
        kind = "val"
        if isinstance(rhs, ast.Call) and isinstance(rhs.func, ast.Attribute) and rhs.func.attr == "can_assign":
            kind = "ca"
        if (
            isinstance(rhs, ast.ListComp)
            and isinstance(rhs.elt, ast.Call)
            and isinstance(rhs.elt.func, ast.Attribute)
            and rhs.elt.func.attr == "can_assign"
        ):
            kind = "calist"
        text = val(rhs, env)
        env.kinds[name] = (kind, name)
        return f"let {name} := {text} in\n{pad}{tr_stmts(rest, env, mode, ind)}"
    if isinstance(s, ast.If):
        # if len(X) == 1: return X[0]
        if _is_len_eq_1(s.test) and not s.orelse and len(s.body) == 1 and isinstance(s.body[0], ast.Return):
            x = s.test.left.args[0].id
            r = s.body[0].value
            if (
                isinstance(r, ast.Subscript)
                and isinstance(r.value, ast.Name)
                and r.value.id == x
                and isinstance(r.slice, ast.Constant)
                and r.slice.value == 0
                and mode == "func"
            ):
                g = env.fresh("only")
                return f"match {value_of_name(s.test.left.args[0], env)} with\n{pad}| [{g}] => Sol {g}\n{pad}| _ => {tr_stmts(rest, env, mode, ind + 1)}\n{pad}end"
            _fail(s, "unsupported `if len(X) == 1` statement")
        c = ex(s.test, env)
        if c is True:
            return tr_stmts(list(s.body) + rest, env, mode, ind)
        if c is False:
            return tr_stmts(list(s.orelse) + rest, env, mode, ind)
        a = tr_stmts(list(s.body) + rest, env.clone(), mode, ind + 1)
        b = tr_stmts(list(s.orelse) + rest, env.clone(), mode, ind + 1)
        return f"if {c}\n{pad}then {a}\n{pad}else {b}"
    _fail(s, "unsupported statement")


def _body(fn):
    body = fn.body
    if body and isinstance(body[0], ast.Expr) and isinstance(body[0].value, ast.Constant):
        body = body[1:]
    return list(body)


def _find_fn(container, name):
    for n in container.body:
        if isinstance(n, ast.FunctionDef) and n.name == name:
            return n
    raise TranslateError(f"function {name} not found")


def _find_class(mod, name):
    for n in mod.body:
        if isinstance(n, ast.ClassDef) and n.name == name:
            return n
    raise TranslateError(f"class {name} not found")


def tr_solve(fn):
    if [a.arg for a in fn.args.args] != ["bounds", "ctx"] or fn.args.vararg or fn.args.kwarg or fn.args.kwonlyargs:
        _fail(fn, "solve: unexpected parameters")
    body = _body(fn)
    env = Env()
    i = 0
    # prologue: x = MARKER
    while i < len(body) and isinstance(body[i], ast.Assign):
        s = body[i]
        if len(s.targets) != 1 or not isinstance(s.targets[0], ast.Name):
            break
        v = s.value
        if isinstance(v, ast.Name) and v.id in ("BOTTOM", "TOP"):
            m = v.id
        elif isinstance(v, ast.Constant) and v.value is None:
            m = None
        else:
            break
        name = s.targets[0].id
        if name in env.status:
            _fail(s, "marker variable initialised twice")
        env.optvars.append(name)
        env.marker[name] = m
        env.status[name] = None
        i += 1
    if env.optvars != ["bottom", "top", "options"]:
        raise TranslateError(f"solve: expected state variables bottom, top, options; found {env.optvars}")
    if i >= len(body) or not isinstance(body[i], ast.For):
        raise TranslateError("solve: expected the `for bound in bounds` loop after the initialisation")
    loop = body[i]
    if not (
        isinstance(loop.target, ast.Name)
        and isinstance(loop.iter, ast.Name)
        and loop.iter.id == "bounds"
        and not loop.orelse
        and len(loop.body) == 1
        and isinstance(loop.body[0], ast.If)
    ):
        _fail(loop, "solve: unexpected loop shape")
    lv = loop.target.id
    arms = {}
    node = loop.body[0]
    while True:
        t = node.test
        if not (
            isinstance(t, ast.Call)
            and isinstance(t.func, ast.Name)
            and t.func.id == "isinstance"
            and len(t.args) == 2
            and isinstance(t.args[0], ast.Name)
            and t.args[0].id == lv
            and isinstance(t.args[1], ast.Name)
            and t.args[1].id in CTORS
        ):
            _fail(t, "solve: expected isinstance(bound, <Bound class>)")
        c = t.args[1].id
        if c in arms:
            _fail(t, f"solve: {c} handled twice")
        e = env.clone()
        e.ctor = (lv, c)
        for fld in CTORS[c]:
            e.kinds[fld] = ("val", fld)
        arms[c] = tr_stmts(list(node.body), e, "loop", 3)
        if len(node.orelse) == 1 and isinstance(node.orelse[0], ast.If):
            node = node.orelse[0]
            continue
        oe = node.orelse
        if not (
            len(oe) == 1
            and isinstance(oe[0], ast.Assert)
            and isinstance(oe[0].test, ast.Constant)
            and oe[0].test.value is False
        ):
            _fail(node, "solve: the isinstance chain must end in `else: assert False`")
        break
    if set(arms) != set(CTORS):
        raise TranslateError(f"solve: bound classes handled: {sorted(arms)}")
    arm_text = ""
    for c in CTOR_ORDER:
        pat = " ".join([c] + CTORS[c])
        arm_text += f"    | {pat} =>\n      {arms[c]}\n"
    tail = tr_stmts(body[i + 1 :], env.clone(), "func", 2)
    st = "(" + ", ".join(env.optvars) + ")"
    return (
        f"  Definition loop_body (st : state V) (bound : bound V) : state V :=\n"
        f"    let '{st} := st in\n"
        f"    match bound with\n{arm_text}    end.\n\n"
        f"  Definition finish (st : state V) : result V :=\n"
        f"    let '{st} := st in\n"
        f"    {tail}.\n\n"
        f"  Definition solve (bounds : list (bound V)) : result V :=\n"
        f"    finish (fold_left loop_body bounds (None, None, None)).\n"
    )


RRS_SHAPE = (
    "[Assign(targets=[Name(id='initial_count', ctx=Store())], value=Call(func=Name(id='len', ctx=Load()), args=[Name(id='solutions', ctx=Load())], keywords=[])), "
    "If(test=Compare(left=Name(id='initial_count', ctx=Load()), ops=[Gt()], comparators=[Constant(value='LIMIT')]), body=[Return(value=Name(id='solutions', ctx=Load()))], orelse=[]), "
    "Assign(targets=[Name(id='temp_solutions', ctx=Store())], value=Call(func=Name(id='list', ctx=Load()), args=[Name(id='solutions', ctx=Load())], keywords=[])), "
    "For(target=Name(id='i', ctx=Store()), iter=Call(func=Name(id='range', ctx=Load()), args=[Name(id='initial_count', ctx=Load())], keywords=[]), body=["
    "Assign(targets=[Name(id='sol', ctx=Store())], value=Subscript(value=Name(id='temp_solutions', ctx=Load()), slice=Name(id='i', ctx=Load()), ctx=Load())), "
    "For(target=Tuple(elts=[Name(id='j', ctx=Store()), Name(id='other', ctx=Store())], ctx=Store()), iter=Call(func=Name(id='enumerate', ctx=Load()), args=[Name(id='temp_solutions', ctx=Load())], keywords=[]), body=["
    "If(test=BoolOp(op=Or(), values=[Compare(left=Name(id='i', ctx=Load()), ops=[Eq()], comparators=[Name(id='j', ctx=Load())]), Compare(left=Name(id='other', ctx=Load()), ops=[Is()], comparators=[Constant(value=None)])]), body=[Continue()], orelse=[]), "
    "If(test=Constant(value='COND'), body=[Assign(targets=[Subscript(value=Name(id='temp_solutions', ctx=Load()), slice=Name(id='i', ctx=Load()), ctx=Store())], value=Constant(value=None))], orelse=[])], orelse=[])], orelse=[]), "
    "Return(value=ListComp(elt=Name(id='sol', ctx=Load()), generators=[comprehension(target=Name(id='sol', ctx=Store()), iter=Name(id='temp_solutions', ctx=Load()), ifs=[Compare(left=Name(id='sol', ctx=Load()), ops=[IsNot()], comparators=[Constant(value=None)])], is_async=0)]))]"
)


def tr_rrs(fn):
    if [a.arg for a in fn.args.args] != ["solutions", "ctx"]:
        _fail(fn, "remove_redundant_solutions: unexpected parameters")
    body = copy.deepcopy(_body(fn))
    try:
        limit_node = body[1].test.comparators[0]
        limit = limit_node.value
        inner_if = body[3].body[1].body[1]
        cond_node = inner_if.test
    except (AttributeError, IndexError):
        _fail(fn, "remove_redundant_solutions has an unexpected shape")
    if not isinstance(limit, int) or isinstance(limit, bool) or limit < 0:
        _fail(fn, "remove_redundant_solutions: size limit is not a natural number")
    env = Env()
    env.kinds["sol"] = ("val", "sol")
    env.kinds["other"] = ("val", "other")
    cond = val(cond_node, env)
    limit_node.value = "LIMIT"
    inner_if.test = ast.Constant(value="COND")
    got = "[" + ", ".join(ast.dump(s) for s in body) + "]"
    if got != RRS_SHAPE:
        _fail(fn, "remove_redundant_solutions has an unexpected shape")
    return (
        f"  (* the test of the inner `if` of remove_redundant_solutions *)\n"
        f"  Definition redundant_wrt (sol other : V) : bool :=\n    {cond}.\n\n"
        f"  Definition rrs_limit : nat := {limit}.\n\n"
        "  (* for j, other in enumerate(temp_solutions): if i == j or other is None: continue; if COND: hit *)\n"
        "  Definition rrs_hit (i : nat) (sol : V) (temp : list (option V)) : bool :=\n"
        "    existsb (fun '(j, other) => match other with\n"
        "                              | None => false\n"
        "                              | Some other => negb (Nat.eqb i j) && redundant_wrt sol other\n"
        "                              end) (enumerate temp).\n\n"
        "  (* one iteration of `for i in range(initial_count)`; temp[i] is never None when\n"
        "     iteration i starts (TypeVar/Model.v, lemma rrs_entry_some) *)\n"
        "  Definition rrs_step (temp : list (option V)) (i : nat) : list (option V) :=\n"
        "    match nth_error temp i with\n"
        "    | Some (Some sol) => if rrs_hit i sol temp then set_nth i None temp else temp\n"
        "    | _ => temp\n"
        "    end.\n\n"
        "  Definition remove_redundant_solutions (solutions : list V) : list V :=\n"
        "    if Nat.ltb rrs_limit (length solutions) then solutions\n"
        "    else cat_somes (fold_left rrs_step (seq 0 (length solutions)) (map Some solutions)).\n"
    )


RESOLVE_SHAPE = (
    "[Assign(targets=[Name(id='tv_map', ctx=Store())], value=DictComp(key=Name(id='tv', ctx=Load()), value=Call(func=Name(id='AnyValue', ctx=Load()), args=[Attribute(value=Name(id='AnySource', ctx=Load()), attr='generic_argument', ctx=Load())], keywords=[]), generators=[comprehension(target=Name(id='tv', ctx=Store()), iter=Name(id='all_typevars', ctx=Load()), ifs=[], is_async=0)])), "
    "Assign(targets=[Name(id='errors', ctx=Store())], value=List(elts=[], ctx=Load())), "
    "For(target=Tuple(elts=[Name(id='tv', ctx=Store()), Name(id='bounds', ctx=Store())], ctx=Store()), iter=Call(func=Attribute(value=Name(id='bounds_map', ctx=Load()), attr='items', ctx=Load()), args=[], keywords=[]), body=["
    "Assign(targets=[Name(id='bounds', ctx=Store())], value=Call(func=Name(id='tuple', ctx=Load()), args=[Call(func=Attribute(value=Name(id='dict', ctx=Load()), attr='fromkeys', ctx=Load()), args=[Name(id='bounds', ctx=Load())], keywords=[])], keywords=[])), "
    "If(test=Call(func=Name(id='is_instance_of_typing_name', ctx=Load()), args=[Name(id='tv', ctx=Load()), Constant(value='ParamSpec')], keywords=[]), body=[Assign(targets=[Name(id='solution', ctx=Store())], value=Call(func=Name(id='solve_paramspec', ctx=Load()), args=[Name(id='bounds', ctx=Load()), Name(id='ctx', ctx=Load())], keywords=[]))], orelse=[Assign(targets=[Name(id='solution', ctx=Store())], value=Call(func=Name(id='solve', ctx=Load()), args=[Name(id='bounds', ctx=Load()), Name(id='ctx', ctx=Load())], keywords=[]))]), "
    "If(test=Call(func=Name(id='isinstance', ctx=Load()), args=[Name(id='solution', ctx=Load()), Name(id='CanAssignError', ctx=Load())], keywords=[]), body=[Expr(value=Call(func=Attribute(value=Name(id='errors', ctx=Load()), attr='append', ctx=Load()), args=[Name(id='solution', ctx=Load())], keywords=[])), Assign(targets=[Name(id='solution', ctx=Store())], value=Call(func=Name(id='AnyValue', ctx=Load()), args=[Attribute(value=Name(id='AnySource', ctx=Load()), attr='error', ctx=Load())], keywords=[]))], orelse=[]), "
    "Assign(targets=[Subscript(value=Name(id='tv_map', ctx=Load()), slice=Name(id='tv', ctx=Load()), ctx=Store())], value=Name(id='solution', ctx=Load()))], orelse=[]), "
    "Return(value=Tuple(elts=[Name(id='tv_map', ctx=Load()), Name(id='errors', ctx=Load())], ctx=Load()))]"
)

IS_ASSIGNABLE_SHAPE = "[Return(value=Call(func=Name(id='isinstance', ctx=Load()), args=[Call(func=Attribute(value=Name(id='self', ctx=Load()), attr='can_assign', ctx=Load()), args=[Name(id='other', ctx=Load()), Name(id='ctx', ctx=Load())], keywords=[]), Name(id='dict', ctx=Load())], keywords=[]))]"

INHERENT_SHAPE = (
    "[If(test=Compare(left=Attribute(value=Name(id='self', ctx=Load()), attr='bound', ctx=Load()), ops=[IsNot()], comparators=[Constant(value=None)]), body=[Expr(value=Yield(value=Call(func=Name(id='UpperBound', ctx=Load()), args=[Attribute(value=Name(id='self', ctx=Load()), attr='typevar', ctx=Load()), Attribute(value=Name(id='self', ctx=Load()), attr='bound', ctx=Load())], keywords=[])))], orelse=[]), "
    "If(test=Attribute(value=Name(id='self', ctx=Load()), attr='constraints', ctx=Load()), body=[Expr(value=Yield(value=Call(func=Name(id='IsOneOf', ctx=Load()), args=[Attribute(value=Name(id='self', ctx=Load()), attr='typevar', ctx=Load()), Attribute(value=Name(id='self', ctx=Load()), attr='constraints', ctx=Load())], keywords=[])))], orelse=[])]"
)

# shape after repo_fixes/C06-empty-collection-lower-bound.diff (the `elif _is_unreachable(other)` branch)
TV_CAN_ASSIGN_SHAPE = "[If(test=Compare(left=Name(id='self', ctx=Load()), ops=[Eq()], comparators=[Name(id='other', ctx=Load())]), body=[Return(value=Dict(keys=[], values=[]))], orelse=[]), If(test=Call(func=Name(id='isinstance', ctx=Load()), args=[Name(id='other', ctx=Load()), Name(id='TypeVarValue', ctx=Load())], keywords=[]), body=[Assign(targets=[Name(id='bounds', ctx=Store())], value=List(elts=[Starred(value=Call(func=Attribute(value=Name(id='self', ctx=Load()), attr='get_inherent_bounds', ctx=Load()), args=[], keywords=[]), ctx=Load()), Starred(value=Call(func=Attribute(value=Name(id='other', ctx=Load()), attr='get_inherent_bounds', ctx=Load()), args=[], keywords=[]), ctx=Load())], ctx=Load()))], orelse=[If(test=Call(func=Name(id='_is_unreachable', ctx=Load()), args=[Name(id='other', ctx=Load())], keywords=[]), body=[Assign(targets=[Name(id='bounds', ctx=Store())], value=List(elts=[Starred(value=Call(func=Attribute(value=Name(id='self', ctx=Load()), attr='get_inherent_bounds', ctx=Load()), args=[], keywords=[]), ctx=Load())], ctx=Load()))], orelse=[Assign(targets=[Name(id='bounds', ctx=Store())], value=List(elts=[Call(func=Name(id='LowerBound', ctx=Load()), args=[Attribute(value=Name(id='self', ctx=Load()), attr='typevar', ctx=Load()), Name(id='other', ctx=Load())], keywords=[]), Starred(value=Call(func=Attribute(value=Name(id='self', ctx=Load()), attr='get_inherent_bounds', ctx=Load()), args=[], keywords=[]), ctx=Load())], ctx=Load()))])]), Return(value=Call(func=Attribute(value=Name(id='self', ctx=Load()), attr='make_bounds_map', ctx=Load()), args=[Name(id='bounds', ctx=Load()), Name(id='other', ctx=Load()), Name(id='ctx', ctx=Load())], keywords=[]))]"

MAKE_BOUNDS_MAP_SHAPE = (
    "[Assign(targets=[Name(id='bounds_map', ctx=Store())], value=Dict(keys=[Attribute(value=Name(id='self', ctx=Load()), attr='typevar', ctx=Load())], values=[Name(id='bounds', ctx=Load())])), "
    "Assign(targets=[Tuple(elts=[Name(id='_', ctx=Store()), Name(id='errors', ctx=Store())], ctx=Store())], value=Call(func=Attribute(value=Attribute(value=Name(id='pyanalyze', ctx=Load()), attr='typevar', ctx=Load()), attr='resolve_bounds_map', ctx=Load()), args=[Name(id='bounds_map', ctx=Load()), Name(id='ctx', ctx=Load())], keywords=[])), "
    "If(test=Name(id='errors', ctx=Load()), body=[Return(value=Call(func=Name(id='CanAssignError', ctx=Load()), args=[JoinedStr(values=[Constant(value='Value of '), FormattedValue(value=Name(id='self', ctx=Load()), conversion=-1), Constant(value=' cannot be '), FormattedValue(value=Name(id='other', ctx=Load()), conversion=-1)]), Call(func=Name(id='list', ctx=Load()), args=[Name(id='errors', ctx=Load())], keywords=[])], keywords=[]))], orelse=[]), "
    "Return(value=Name(id='bounds_map', ctx=Load()))]"
)

UNIFY_SHAPE = (
    "[Assign(targets=[Name(id='result', ctx=Store())], value=Dict(keys=[], values=[])), "
    "For(target=Name(id='bounds_map', ctx=Store()), iter=Name(id='bounds_maps', ctx=Load()), body=[For(target=Tuple(elts=[Name(id='tv', ctx=Store()), Name(id='bounds', ctx=Store())], ctx=Store()), iter=Call(func=Attribute(value=Name(id='bounds_map', ctx=Load()), attr='items', ctx=Load()), args=[], keywords=[]), body=[Expr(value=Call(func=Attribute(value=Call(func=Attribute(value=Name(id='result', ctx=Load()), attr='setdefault', ctx=Load()), args=[Name(id='tv', ctx=Load()), List(elts=[], ctx=Load())], keywords=[]), attr='extend', ctx=Load()), args=[Name(id='bounds', ctx=Load())], keywords=[]))], orelse=[])], orelse=[]), "
    "Return(value=Name(id='result', ctx=Load()))]"
)


TV_CAN_BE_ASSIGNED_SHAPE = "[If(test=Compare(left=Name(id='left', ctx=Load()), ops=[Eq()], comparators=[Name(id='self', ctx=Load())]), body=[Return(value=Dict(keys=[], values=[]))], orelse=[]), If(test=Call(func=Name(id='isinstance', ctx=Load()), args=[Name(id='left', ctx=Load()), Name(id='TypeVarValue', ctx=Load())], keywords=[]), body=[Assign(targets=[Name(id='bounds', ctx=Store())], value=List(elts=[Starred(value=Call(func=Attribute(value=Name(id='self', ctx=Load()), attr='get_inherent_bounds', ctx=Load()), args=[], keywords=[]), ctx=Load()), Starred(value=Call(func=Attribute(value=Name(id='left', ctx=Load()), attr='get_inherent_bounds', ctx=Load()), args=[], keywords=[]), ctx=Load())], ctx=Load()))], orelse=[Assign(targets=[Name(id='bounds', ctx=Store())], value=List(elts=[Call(func=Name(id='UpperBound', ctx=Load()), args=[Attribute(value=Name(id='self', ctx=Load()), attr='typevar', ctx=Load()), Name(id='left', ctx=Load())], keywords=[]), Starred(value=Call(func=Attribute(value=Name(id='self', ctx=Load()), attr='get_inherent_bounds', ctx=Load()), args=[], keywords=[]), ctx=Load())], ctx=Load()))]), Return(value=Call(func=Attribute(value=Name(id='self', ctx=Load()), attr='make_bounds_map', ctx=Load()), args=[Name(id='bounds', ctx=Load()), Name(id='left', ctx=Load()), Name(id='ctx', ctx=Load())], keywords=[]))]"

INTERSECT_SHAPE = "[AnnAssign(target=Name(id='intermediate', ctx=Store()), annotation=Subscript(value=Name(id='dict', ctx=Load()), slice=Tuple(elts=[Name(id='TypeVarLike', ctx=Load()), Subscript(value=Name(id='dict', ctx=Load()), slice=Tuple(elts=[Subscript(value=Name(id='tuple', ctx=Load()), slice=Tuple(elts=[Name(id='Bound', ctx=Load()), Constant(value=Ellipsis)], ctx=Load()), ctx=Load()), Constant(value=None)], ctx=Load()), ctx=Load())], ctx=Load()), ctx=Load()), value=Dict(keys=[], values=[]), simple=1), For(target=Name(id='bounds_map', ctx=Store()), iter=Name(id='bounds_maps', ctx=Load()), body=[For(target=Tuple(elts=[Name(id='tv', ctx=Store()), Name(id='bounds', ctx=Store())], ctx=Store()), iter=Call(func=Attribute(value=Name(id='bounds_map', ctx=Load()), attr='items', ctx=Load()), args=[], keywords=[]), body=[Assign(targets=[Subscript(value=Call(func=Attribute(value=Name(id='intermediate', ctx=Load()), attr='setdefault', ctx=Load()), args=[Name(id='tv', ctx=Load()), Dict(keys=[], values=[])], keywords=[]), slice=Call(func=Name(id='tuple', ctx=Load()), args=[Name(id='bounds', ctx=Load())], keywords=[]), ctx=Store())], value=Constant(value=None))], orelse=[])], orelse=[]), Return(value=DictComp(key=Name(id='tv', ctx=Load()), value=IfExp(test=Compare(left=Call(func=Name(id='len', ctx=Load()), args=[Name(id='bound_lists', ctx=Load())], keywords=[]), ops=[Gt()], comparators=[Constant(value=1)]), body=List(elts=[Call(func=Name(id='OrBound', ctx=Load()), args=[Call(func=Name(id='tuple', ctx=Load()), args=[Name(id='bound_lists', ctx=Load())], keywords=[])], keywords=[])], ctx=Load()), orelse=Call(func=Name(id='next', ctx=Load()), args=[Call(func=Name(id='iter', ctx=Load()), args=[Name(id='bound_lists', ctx=Load())], keywords=[])], keywords=[])), generators=[comprehension(target=Tuple(elts=[Name(id='tv', ctx=Store()), Name(id='bound_lists', ctx=Store())], ctx=Store()), iter=Call(func=Attribute(value=Name(id='intermediate', ctx=Load()), attr='items', ctx=Load()), args=[], keywords=[]), ifs=[Call(func=Name(id='all', ctx=Load()), args=[GeneratorExp(elt=Compare(left=Name(id='tv', ctx=Load()), ops=[In()], comparators=[Name(id='bounds_map', ctx=Load())]), generators=[comprehension(target=Name(id='bounds_map', ctx=Store()), iter=Name(id='bounds_maps', ctx=Load()), ifs=[], is_async=0)])], keywords=[])], is_async=0)]))]"


def _dump_body(fn):
    return "[" + ", ".join(ast.dump(s) for s in _body(fn)) + "]"


def check_shape(fn, want, what, broken):
    if _dump_body(fn) != want:
        broken.append(f"{what} (line {fn.lineno})")


def translate(repo="/repo"):
    mod = ast.parse(Path(repo, "pyanalyze/typevar.py").read_text())
    solve_txt = tr_solve(_find_fn(mod, "solve"))
    rrs_txt = tr_rrs(_find_fn(mod, "remove_redundant_solutions"))
    # facts about bound generation / resolve_bounds_map that the hand-written parts of the model
    # (Model.v: dedup, arg_bounds, call_solution) were written for; a broken fact does not stop
    # the translation of solve (the model stays runnable) but makes the generated obligation
    # `bound_generation_shape_ok = true` (Properties/C15.v) fail
    broken = []
    vmod = ast.parse(Path(repo, "pyanalyze/value.py").read_text())
    try:
        check_shape(_find_fn(mod, "resolve_bounds_map"), RESOLVE_SHAPE, "typevar.resolve_bounds_map", broken)
        check_shape(_find_fn(_find_class(vmod, "Value"), "is_assignable"), IS_ASSIGNABLE_SHAPE, "Value.is_assignable", broken)
        tvv = _find_class(vmod, "TypeVarValue")
        check_shape(_find_fn(tvv, "get_inherent_bounds"), INHERENT_SHAPE, "TypeVarValue.get_inherent_bounds", broken)
        check_shape(_find_fn(tvv, "can_assign"), TV_CAN_ASSIGN_SHAPE, "TypeVarValue.can_assign", broken)
        check_shape(_find_fn(tvv, "make_bounds_map"), MAKE_BOUNDS_MAP_SHAPE, "TypeVarValue.make_bounds_map", broken)
        check_shape(_find_fn(vmod, "unify_bounds_maps"), UNIFY_SHAPE, "value.unify_bounds_maps", broken)
        # upper bounds (callback parameters) and OrBound generation (union-annotated parameters)
        check_shape(_find_fn(tvv, "can_be_assigned"), TV_CAN_BE_ASSIGNED_SHAPE, "TypeVarValue.can_be_assigned", broken)
        check_shape(_find_fn(vmod, "intersect_bounds_maps"), INTERSECT_SHAPE, "value.intersect_bounds_maps", broken)
    except TranslateError as ex:
        broken.append(str(ex))
    shape_ok = "true" if not broken else "false"
    shape_note = "; ".join(broken).replace("*)", "* )") or "all shapes as expected"
    return f"""(* GENERATED by harness/translate/solve.py from pyanalyze/typevar.py — do not edit *)
From Coq Require Import List Bool Arith.
Import ListNotations.
Require Import PV.TypeVar.Base.

Section Solve.
  Context {{V : Type}} (O : ops V).

  (* (bottom, top, options): None = the BOTTOM / TOP marker / `options is None` *)
  Definition state (V : Type) : Type := (option V * option V * option (list V))%type.

  (* ---- remove_redundant_solutions ---- *)
{rrs_txt}
  (* ---- solve ---- *)
{solve_txt}
  (* ---- resolve_bounds_map, for one type variable that is not a ParamSpec:
          bounds = tuple(dict.fromkeys(bounds)); solution = solve(bounds, ctx) ---- *)
  Definition resolve (bounds : list (bound V)) : result V :=
    solve (dedup (bound_eqb O) bounds).
End Solve.

(* resolve_bounds_map, Value.is_assignable, TypeVarValue.get_inherent_bounds / can_assign /
   make_bounds_map / can_be_assigned, unify_bounds_maps and intersect_bounds_maps still have the statement shape the model was written for
   ({shape_note}) *)
Definition bound_generation_shape_ok : bool := {shape_ok}.
"""


if __name__ == "__main__":
    sys.stdout.write(translate(sys.argv[1] if len(sys.argv) > 1 else "/repo"))
