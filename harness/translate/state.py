"""Translator: inventory of state that outlives one check  ->  coq/theories/Gen/State.v   (C10)

Walks the seven files anchored by C10 and lists

  state items
    module   : module-level names bound to a mutable object -- dict / list / set displays
               and comprehensions, calls of dict/list/set/defaultdict/OrderedDict/Counter/deque/
               Weak*Dictionary/WeakSet, and calls of a class of these files that has a mutable
               instance field (dataclass field annotated dict/list/set/defaultdict or with
               default_factory=dict/list/set, or `self.x = {}/[]/set()` in __init__);
    class    : the same for assignments in a class body (shared by all instances);
    cachedfn : functions decorated with functools.lru_cache / cache (process-global memo).
    Each item carries `mutated`: whether the seven files contain a store through that name
    (subscript store / del, augmented assignment, or a call of append/add/update/setdefault/
    pop/clear/extend/insert/remove/discard/popitem on it, or -- for instances -- on one of its
    mutable fields through any expression ending in that field name).

  cache key sites
    every subscript / .get() / .setdefault() / `in` test on an expression whose last name
    component contains "cache" (or is one of the known memo tables), with the text of the key
    expression; a key that is a local name assigned exactly once in the function is replaced
    by the text of that assignment's right-hand side.

Identification is by (file, scope, name) and text -- no line numbers.  Unknown shapes
raise TranslateError (fail closed).
"""
from __future__ import annotations

import ast
from pathlib import Path

from translate.sites import FILES, TranslateError, all_files

MUTABLE_CALLS = {"dict", "list", "set", "defaultdict", "OrderedDict", "Counter", "deque", "WeakKeyDictionary",
                 "WeakValueDictionary", "WeakSet", "bytearray"}
MUTABLE_ANN = {"dict", "list", "set", "Dict", "List", "Set", "defaultdict", "DefaultDict", "OrderedDict", "MutableMapping",
               "MutableSequence", "MutableSet", "deque"}
MUTATORS = {"append", "add", "update", "setdefault", "pop", "clear", "extend", "insert", "remove", "discard", "popitem",
            "appendleft", "sort", "reverse"}
MEMO_DECORATORS = {"lru_cache", "cache"}
EXTRA_CACHE_NAMES = {"known_argspecs", "_argspec_to_retval", "seen_errors"}


def _name(e):
    if isinstance(e, ast.Name):
        return e.id
    if isinstance(e, ast.Attribute):
        return e.attr
    return None


def _ann_base(a):
    if isinstance(a, ast.Subscript):
        a = a.value
    if isinstance(a, ast.Constant) and isinstance(a.value, str):
        try:
            return _ann_base(ast.parse(a.value, mode="eval").body)
        except SyntaxError:
            return None
    return _name(a)


def _mutable_value_kind(v, class_fields):
    """'dict' | 'list' | 'set' | 'call:<f>' | 'instance:<Cls>' | None"""
    if isinstance(v, (ast.Dict, ast.DictComp)):
        return "dict"
    if isinstance(v, (ast.List, ast.ListComp)):
        return "list"
    if isinstance(v, (ast.Set, ast.SetComp)):
        return "set"
    if isinstance(v, ast.Call):
        f = _name(v.func)
        if f in MUTABLE_CALLS:
            return "call:" + f
        if f in class_fields and class_fields[f]:
            return "instance:" + f
    return None


def class_mutable_fields(trees):
    """class name -> sorted names of mutable instance fields"""
    out = {}
    for _, tree in trees:
        for node in ast.walk(tree):
            if not isinstance(node, ast.ClassDef):
                continue
            fields = set()
            for st in node.body:
                if isinstance(st, ast.AnnAssign) and isinstance(st.target, ast.Name):
                    mutable = _ann_base(st.annotation) in MUTABLE_ANN
                    if isinstance(st.value, ast.Call) and _name(st.value.func) == "field":
                        for kw in st.value.keywords:
                            if kw.arg == "default_factory" and _name(kw.value) in MUTABLE_CALLS:
                                mutable = True
                    if mutable:
                        fields.add(st.target.id)
                if isinstance(st, ast.FunctionDef) and st.name in ("__init__", "__post_init__"):
                    for n in ast.walk(st):
                        if isinstance(n, ast.Assign):
                            for t in n.targets:
                                if isinstance(t, ast.Attribute) and isinstance(t.value, ast.Name) and t.value.id == "self":
                                    if _mutable_value_kind(n.value, {}) is not None:
                                        fields.add(t.attr)
            out[node.name] = sorted(fields)
    return out


def _mutated_names(trees):
    """names (bare or attribute tail) through which a store / mutator call happens"""
    names = set()
    for _, tree in trees:
        for n in ast.walk(tree):
            if isinstance(n, ast.Subscript) and isinstance(n.ctx, (ast.Store, ast.Del)):
                nm = _name(n.value)
                if nm:
                    names.add(nm)
            elif isinstance(n, ast.AugAssign):
                nm = _name(n.target)
                if nm:
                    names.add(nm)
            elif isinstance(n, ast.Call) and isinstance(n.func, ast.Attribute) and n.func.attr in MUTATORS:
                nm = _name(n.func.value)
                if nm:
                    names.add(nm)
    return names


def _module_level_statements(tree):
    """top-level statements, looking inside module-level if/try/with blocks"""
    todo = list(tree.body)
    while todo:
        st = todo.pop(0)
        yield st
        if isinstance(st, (ast.If, ast.Try, ast.With)):
            for blk in ("body", "orelse", "finalbody"):
                todo = list(getattr(st, blk, [])) + todo
            for h in getattr(st, "handlers", []):
                todo = list(h.body) + todo


def inventory(repo: str):
    base = Path(repo) / "pyanalyze"
    trees = []
    for f in FILES:
        if not (base / f).exists():
            raise TranslateError(f"anchored file missing: {f}")
    for f in all_files(repo):   # phase 4: every non-test module, the seven anchored files first
        trees.append((f, ast.parse((base / f).read_text())))
    cfields = class_mutable_fields(trees)
    mutated = _mutated_names(trees)
    items = []

    def add(fname, scope, name, kind):
        is_mut = name in mutated
        if kind.startswith("instance:"):
            fields = cfields[kind[9:]]
            is_mut = is_mut or any(fl in mutated for fl in fields)
            kind = kind + "[" + ",".join(fields) + "]"
        items.append({"file": fname, "scope": scope, "name": name, "kind": kind, "mutated": bool(is_mut)})

    for fname, tree in trees:
        for st in _module_level_statements(tree):
            targets, value = [], None
            if isinstance(st, ast.Assign):
                targets, value = st.targets, st.value
            elif isinstance(st, ast.AnnAssign) and st.value is not None:
                targets, value = [st.target], st.value
            for t in targets:
                if isinstance(t, ast.Name):
                    k = _mutable_value_kind(value, cfields)
                    if k:
                        add(fname, "<module>", t.id, k)
        for node in ast.walk(tree):
            if isinstance(node, ast.ClassDef):
                for st in node.body:
                    targets, value = [], None
                    if isinstance(st, ast.Assign):
                        targets, value = st.targets, st.value
                    elif isinstance(st, ast.AnnAssign) and st.value is not None:
                        targets, value = [st.target], st.value
                    for t in targets:
                        if isinstance(t, ast.Name):
                            k = _mutable_value_kind(value, cfields)
                            if k:
                                add(fname, node.name, t.id, k)
            if isinstance(node, (ast.FunctionDef, ast.AsyncFunctionDef)):
                for d in node.decorator_list:
                    dn = _name(d.func) if isinstance(d, ast.Call) else _name(d)
                    if dn in MEMO_DECORATORS:
                        items.append({"file": fname, "scope": "<function>", "name": node.name, "kind": "cachedfn:" + dn, "mutated": True})

    # cache key sites
    keys = []
    for fname, tree in trees:
        parents = {}
        for n in ast.walk(tree):
            for c in ast.iter_child_nodes(n):
                parents[c] = n

        def qual(node):
            names = []
            n = node
            while n in parents:
                n = parents[n]
                if isinstance(n, (ast.FunctionDef, ast.AsyncFunctionDef, ast.ClassDef)):
                    names.append(n.name)
            return ".".join(reversed(names)) or "<module>"

        def enclosing_fn(node):
            n = node
            while n in parents:
                n = parents[n]
                if isinstance(n, (ast.FunctionDef, ast.AsyncFunctionDef)):
                    return n
            return None

        def is_cache(e):
            nm = _name(e)
            return nm is not None and ("cache" in nm.lower() or nm in EXTRA_CACHE_NAMES) and not nm.startswith("arg_spec_cache")

        def key_text(k, node):
            if isinstance(k, ast.Name):
                fn = enclosing_fn(node)
                if fn is not None:
                    rhs = [a.value for a in ast.walk(fn) if isinstance(a, ast.Assign) and len(a.targets) == 1
                           and isinstance(a.targets[0], ast.Name) and a.targets[0].id == k.id]
                    if len(rhs) == 1:
                        return f"{k.id} := {ast.unparse(rhs[0])}"
            return ast.unparse(k)

        for n in ast.walk(tree):
            if isinstance(n, ast.Subscript) and is_cache(n.value):
                op = "store" if isinstance(n.ctx, ast.Store) else "del" if isinstance(n.ctx, ast.Del) else "load"
                keys.append((fname, qual(n), ast.unparse(n.value), op, key_text(n.slice, n)))
            elif isinstance(n, ast.Call) and isinstance(n.func, ast.Attribute) and n.func.attr in ("get", "setdefault", "pop") \
                    and is_cache(n.func.value) and n.args:
                keys.append((fname, qual(n), ast.unparse(n.func.value), n.func.attr, key_text(n.args[0], n)))
            elif isinstance(n, ast.Compare) and len(n.ops) == 1 and isinstance(n.ops[0], (ast.In, ast.NotIn)) and is_cache(n.comparators[0]):
                keys.append((fname, qual(n), ast.unparse(n.comparators[0]), "in", key_text(n.left, n)))
            # memo kept as an ad-hoc attribute of an object (frozen dataclasses):
            #   x.__dict__.get("_name")  /  object.__setattr__(x, "_name", v)   outside __init__/__post_init__
            if isinstance(n, ast.Call) and isinstance(n.func, ast.Attribute) and n.func.attr == "get" and n.args \
                    and isinstance(n.func.value, ast.Attribute) and n.func.value.attr == "__dict__" \
                    and isinstance(n.args[0], ast.Constant) and isinstance(n.args[0].value, str):
                keys.append((fname, qual(n), "attribute " + n.args[0].value, "get", "object " + ast.unparse(n.func.value.value)))
            if isinstance(n, ast.Call) and ast.unparse(n.func) == "object.__setattr__" and len(n.args) == 3 \
                    and isinstance(n.args[1], ast.Constant) and isinstance(n.args[1].value, str):
                q = qual(n)
                if not q.endswith(("__init__", "__post_init__")):
                    keys.append((fname, q, "attribute " + n.args[1].value, "store", "object " + ast.unparse(n.args[0])))
    # the fields of the dataclass that serves as key of resolution_cache
    for fname, tree in trees:
        for node in ast.walk(tree):
            if isinstance(node, ast.ClassDef) and node.name == "_LookupContext":
                flds = [st.target.id for st in node.body if isinstance(st, ast.AnnAssign) and isinstance(st.target, ast.Name)]
                keys.append((fname, "_LookupContext", "<dataclass fields>", "fields", ", ".join(flds)))
    # memo SLOTS on objects that are shared through Checker-level caches (a cached signature's
    # return value is one TypedValue for all call sites of all files): every `self.<attr> = ...`
    # outside __init__ / __post_init__ in the value / type-object / signature classes and in the
    # cache owners, with the assigned expression and the conditions it sits under
    SHARED_FILES = {"value.py", "type_object.py", "signature.py"}
    SHARED_CLASSES = {"Checker", "ArgSpecCache", "TypeshedFinder"}
    for fname, tree in trees:
        for cls in ast.walk(tree):
            if not isinstance(cls, ast.ClassDef) or not (fname in SHARED_FILES or cls.name in SHARED_CLASSES):
                continue
            for meth in cls.body:
                if not isinstance(meth, (ast.FunctionDef, ast.AsyncFunctionDef)) or meth.name in ("__init__", "__post_init__", "__new__"):
                    continue
                par = {}
                for n in ast.walk(meth):
                    for c in ast.iter_child_nodes(n):
                        par[c] = n
                for n in ast.walk(meth):
                    tgts = n.targets if isinstance(n, ast.Assign) else [n.target] if isinstance(n, (ast.AugAssign, ast.AnnAssign)) else []
                    for t in tgts:
                        if isinstance(t, ast.Attribute) and isinstance(t.value, ast.Name) and t.value.id == "self":
                            conds, c = [], n
                            while c in par:
                                p_ = par[c]
                                if isinstance(p_, ast.If):
                                    conds.append(("" if c in p_.body else "not ") + "(" + ast.unparse(p_.test) + ")")
                                c = p_
                            rhs = ast.unparse(n.value) if getattr(n, "value", None) is not None else ""
                            keys.append((fname, f"{cls.name}.{meth.name}", "slot " + t.attr, "assign",
                                         rhs + (" WHEN " + " and ".join(reversed(conds)) if conds else "")))
    # ReferencingValue(scope, name): a write through it lands in `scope`.  The scope must be one that
    # belongs to the module being checked -- never the class-level StackedScopes._builtin_scope, which is
    # shared by every visitor and Checker.  Every construction is listed with the expression that yields
    # the scope (and its single assignment when it is a local name).
    for fname, tree in trees:
        if fname not in ("name_check_visitor.py", "stacked_scopes.py"):
            continue
        par = {}
        for n in ast.walk(tree):
            for c in ast.iter_child_nodes(n):
                par[c] = n
        for n in ast.walk(tree):
            if isinstance(n, ast.Call) and _name(n.func) == "ReferencingValue" and n.args:
                fn = n
                while fn in par and not isinstance(fn, (ast.FunctionDef, ast.AsyncFunctionDef)):
                    fn = par[fn]
                a0 = n.args[0]
                text = ast.unparse(a0)
                if isinstance(a0, ast.Name) and isinstance(fn, (ast.FunctionDef, ast.AsyncFunctionDef)):
                    rhs = [ast.unparse(a.value) for a in ast.walk(fn) if isinstance(a, ast.Assign)
                           for t in a.targets
                           for nm in ([t] if isinstance(t, ast.Name) else list(t.elts) if isinstance(t, ast.Tuple) else [])
                           if isinstance(nm, ast.Name) and nm.id == a0.id]
                    text += " := " + " | ".join(sorted(set(rhs)))
                keys.append((fname, getattr(fn, "name", "<module>"), "ReferencingValue scope", "construct", text))
    # the key of resolution_cache is checked field by field (resolution_key_fields), not as text
    keys = [k for k in keys if "resolution_cache" not in k[2] and k[1] != "_LookupContext"]
    keys = sorted(set(keys))
    return items, keys


def resolution_key_fields(repo: str):
    """What FunctionScope._resolve_value puts into the key of resolution_cache, field by field
    (semantic, not textual: the key is `replace(<_LookupContext>, f=<expr>, ...)` or a direct
    `_LookupContext(...)`): every field of _LookupContext is
      "kept"        taken over from the lookup context unchanged
      "const"       replaced by a constant (None / a literal)
      "conditional" replaced by anything else (depends on run-time conditions)"""
    tree = ast.parse((Path(repo) / "pyanalyze" / "stacked_scopes.py").read_text())
    fields = None
    fn = None
    for node in ast.walk(tree):
        if isinstance(node, ast.ClassDef) and node.name == "_LookupContext":
            fields = [st.target.id for st in node.body if isinstance(st, ast.AnnAssign) and isinstance(st.target, ast.Name)]
        if isinstance(node, ast.FunctionDef) and node.name == "_resolve_value":
            fn = node
    if not fields or fn is None:
        raise TranslateError("stacked_scopes.py: _LookupContext / _resolve_value not found")
    # the expression used as subscript of <x>.resolution_cache
    key_exprs = []
    for n in ast.walk(fn):
        if isinstance(n, ast.Subscript) and isinstance(n.value, ast.Attribute) and n.value.attr == "resolution_cache":
            key_exprs.append(n.slice)
    if not key_exprs:
        raise TranslateError("stacked_scopes.py: no resolution_cache subscript in _resolve_value")
    texts = {ast.unparse(k) for k in key_exprs}
    if len(texts) != 1:
        raise TranslateError(f"stacked_scopes.py: resolution_cache is subscripted with different keys: {sorted(texts)}")
    k = key_exprs[0]
    if isinstance(k, ast.Name):
        rhs = [a.value for a in ast.walk(fn) if isinstance(a, ast.Assign) and len(a.targets) == 1
               and isinstance(a.targets[0], ast.Name) and a.targets[0].id == k.id]
        if len(rhs) != 1:
            raise TranslateError("stacked_scopes.py: the resolution_cache key variable is not assigned exactly once")
        k = rhs[0]
    status = {f: "kept" for f in fields}
    if isinstance(k, ast.Call) and _name(k.func) == "replace" and len(k.args) == 1 and isinstance(k.args[0], ast.Name):
        for kw in k.keywords:
            if kw.arg not in status:
                raise TranslateError(f"stacked_scopes.py: replace() sets unknown field {kw.arg}")
            status[kw.arg] = "const" if isinstance(kw.value, ast.Constant) else "conditional"
    elif isinstance(k, ast.Name):
        pass  # the lookup context itself
    else:
        raise TranslateError(f"stacked_scopes.py: unsupported resolution_cache key {ast.unparse(k)}")
    return [(f, status[f]) for f in fields]


# ---------------------------------------------------------------------------
# in-place mutation of objects that are not obviously fresh, and stores of such objects into
# containers (aliasing): a value handed out by a cache / memo must be immutable or copied on the
# way out -- every place that could violate that is listed and pinned.

ALIAS_FILES = ["value.py", "type_object.py", "signature.py", "typevar.py", "arg_spec.py", "checker.py"]
FRESH_CALLS = {"list", "dict", "set", "tuple", "sorted", "frozenset", "defaultdict", "OrderedDict", "copy", "deepcopy", "replace"}


def _is_fresh_expr(e):
    """syntactically a newly built object"""
    if isinstance(e, (ast.Dict, ast.List, ast.Set, ast.Tuple, ast.ListComp, ast.DictComp, ast.SetComp, ast.GeneratorExp,
                      ast.Constant, ast.JoinedStr)):
        return True
    if isinstance(e, ast.Call) and _name(e.func) in FRESH_CALLS:
        return True
    if isinstance(e, ast.BinOp):
        return True
    if isinstance(e, ast.Starred):
        return _is_fresh_expr(e.value)
    return False


def mutation_sites(repo: str):
    base = Path(repo) / "pyanalyze"
    rows = []
    for fname in ALIAS_FILES:
        tree = ast.parse((base / fname).read_text())
        parents = {}
        for n in ast.walk(tree):
            for c in ast.iter_child_nodes(n):
                parents[c] = n

        def qual(node):
            names = []
            n = node
            while n in parents:
                n = parents[n]
                if isinstance(n, (ast.FunctionDef, ast.AsyncFunctionDef, ast.ClassDef)):
                    names.append(n.name)
            return ".".join(reversed(names)) or "<module>"

        for fn in ast.walk(tree):
            if not isinstance(fn, (ast.FunctionDef, ast.AsyncFunctionDef)):
                continue
            # locals that are only ever bound to fresh objects
            bound = {}
            for n in ast.walk(fn):
                if isinstance(n, ast.Assign):
                    for t in n.targets:
                        if isinstance(t, ast.Name):
                            bound.setdefault(t.id, []).append(_is_fresh_expr(n.value))
                elif isinstance(n, ast.AnnAssign) and isinstance(n.target, ast.Name) and n.value is not None:
                    bound.setdefault(n.target.id, []).append(_is_fresh_expr(n.value))
                elif isinstance(n, (ast.For, ast.comprehension)):
                    for t in ast.walk(n.target):
                        if isinstance(t, ast.Name):
                            bound.setdefault(t.id, []).append(False)
            fresh_locals = {k for k, v in bound.items() if v and all(v)}

            def non_fresh(e):
                """may refer to an object that exists outside this function"""
                if _is_fresh_expr(e):
                    return False
                if isinstance(e, ast.Name):
                    return e.id not in fresh_locals
                if isinstance(e, ast.IfExp):
                    return non_fresh(e.body) or non_fresh(e.orelse)
                return True  # attribute, subscript, call result ...

            for n in ast.walk(fn):
                owner = n
                while owner in parents and not isinstance(parents[owner], (ast.FunctionDef, ast.AsyncFunctionDef)):
                    owner = parents[owner]
                if parents.get(owner) is not fn:
                    continue  # belongs to a nested function: listed there
                # in-place mutation through a method
                if isinstance(n, ast.Call) and isinstance(n.func, ast.Attribute) and n.func.attr in MUTATORS | {"setdefault"}:
                    recv = n.func.value
                    if isinstance(recv, ast.Name) and recv.id in fresh_locals:
                        continue
                    if isinstance(recv, ast.Name) and recv.id == "self":
                        continue
                    rows.append((fname, qual(n), "mutate", ast.unparse(recv), n.func.attr))
                # subscript store / delete / augmented assignment on a non-fresh object
                elif isinstance(n, ast.Subscript) and isinstance(n.ctx, (ast.Store, ast.Del)):
                    recv = n.value
                    if isinstance(recv, ast.Name) and recv.id in fresh_locals:
                        # storing a non-fresh object into a fresh container creates an alias
                        p_ = parents.get(n)
                        if isinstance(p_, ast.Assign) and non_fresh(p_.value) and not isinstance(p_.value, (ast.Call, ast.Attribute, ast.Subscript)):
                            rows.append((fname, qual(n), "alias-store", ast.unparse(n), ast.unparse(p_.value)))
                        continue
                    rows.append((fname, qual(n), "mutate", ast.unparse(recv), "[]=" if isinstance(n.ctx, ast.Store) else "del[]"))
                elif isinstance(n, ast.AugAssign) and not isinstance(n.target, ast.Name):
                    rows.append((fname, qual(n), "mutate", ast.unparse(n.target), "augassign"))
    return sorted(set(rows))


def _cq(s):
    s = s.replace("\n", " ")
    if any(ord(ch) > 126 or ord(ch) < 32 for ch in s):
        raise TranslateError(f"non-printable character in state text: {s!r}")
    return '"' + s.replace('"', '""') + '"'


def translate(repo: str) -> str:
    items, keys = inventory(repo)
    rows = [f"  StateItem {_cq(i['file'])} {_cq(i['scope'])} {_cq(i['name'])} {_cq(i['kind'])} {'true' if i['mutated'] else 'false'}"
            for i in items]
    krows = [f"  CacheKey {_cq(a)} {_cq(b)} {_cq(c)} {_cq(d)} {_cq(e)}" for a, b, c, d, e in keys]
    return (
        "(* GENERATED by harness/translate/state.py from the seven files anchored by C10 -- do not edit *)\n"
        "From Coq Require Import String List.\nRequire Import PV.Det.StateAudit.\nImport ListNotations.\nOpen Scope string_scope.\n\n"
        "Definition state_items : list state_item := [\n" + ";\n".join(rows) + "\n]%list.\n\n"
        "Definition cache_keys : list cache_key := [\n" + ";\n".join(krows) + "\n]%list.\n\n"
        "Definition mutation_sites : list cache_key := [\n"
        + ";\n".join(f"  CacheKey {_cq(a)} {_cq(b)} {_cq(c)} {_cq(d)} {_cq(e)}" for a, b, c, d, e in mutation_sites(repo)) + "\n]%list.\n\n"
        "Definition resolution_key_fields : list (string * string) := ["
        + "; ".join(f"({_cq(f)}, {_cq(st)})" for f, st in resolution_key_fields(repo)) + "]%list.\n"
    )


if __name__ == "__main__":
    import sys

    items, keys = inventory(sys.argv[1] if len(sys.argv) > 1 else "/repo")
    for i in items:
        print(i)
    print(len(items), "items")
    for k in keys:
        print(k)
    print(len(keys), "cache key sites")
