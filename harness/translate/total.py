"""Translator for C12  ->  coq/theories/Gen/Total.v

Data regenerated from the current source (fail-closed `ast` walkers):

  registered_codes            members of error_code.ErrorCode
  value_hierarchy             every class of value.py deriving from Value, with its
                              transitive ancestors inside value.py
  boolability_unwrapped       classes that replace_known_sequence_value /
                              _get_boolability_no_mvv rewrite away before the chain
  boolability_handled         isinstance targets of the if/elif chain of
                              boolability._get_boolability_no_mvv, in order
  boolability_else_raises     whether the chain ends in `else: assert False`
  annotation_visitor_methods  visit_<Kind> methods of annotations._Visitor
  annotation_generic_raises   whether _Visitor.generic_visit raises
  expr_kinds                  the expression node kinds of this Python's `ast`
                              (data from the running interpreter)
  show_error_subscripts       every `lines[...]` of BaseNodeVisitor.show_error with its guard,
  show_error_context_bounds   the bounds of the context loop, CONTEXT_LINES (pins Total/Emit.v)
"""
from __future__ import annotations

import ast
from pathlib import Path


class TranslateError(Exception):
    pass


def _parse(repo, name):
    p = Path(repo) / "pyanalyze" / name
    if not p.exists():
        raise TranslateError(f"missing {name}")
    return ast.parse(p.read_text())


def _find(tree, kind, name):
    for n in ast.walk(tree):
        if isinstance(n, kind) and n.name == name:
            return n
    raise TranslateError(f"{name} not found")


def error_codes(repo):
    """ErrorCode = ErrorRegistry([Error("<name>", "<description>"), ...]) -> names
    (descriptions must be non-empty string constants: show_error falls back to them)"""
    tree = _parse(repo, "error_code.py")
    for st in tree.body:
        if isinstance(st, ast.Assign) and len(st.targets) == 1 and isinstance(st.targets[0], ast.Name) \
                and st.targets[0].id == "ErrorCode":
            call = st.value
            if not (isinstance(call, ast.Call) and isinstance(call.func, ast.Name) and call.func.id == "ErrorRegistry"
                    and len(call.args) == 1 and isinstance(call.args[0], ast.List)):
                raise TranslateError("error_code.py: ErrorCode is not ErrorRegistry([...])")
            names = []
            for e in call.args[0].elts:
                if not (isinstance(e, ast.Call) and isinstance(e.func, ast.Name) and e.func.id == "Error" and len(e.args) == 2
                        and isinstance(e.args[0], ast.Constant) and isinstance(e.args[0].value, str)):
                    raise TranslateError(f"error_code.py:{e.lineno}: entry is not Error(<name>, <description>)")
                try:
                    desc = ast.literal_eval(e.args[1])
                except Exception:
                    raise TranslateError(f"error_code.py:{e.lineno}: description is not a constant") from None
                if not isinstance(desc, str) or not desc.strip():
                    raise TranslateError(f"error_code.py:{e.lineno}: empty description for {e.args[0].value}")
                names.append(e.args[0].value)
            return names
    raise TranslateError("error_code.py: ErrorCode registry not found")


def value_hierarchy(repo):
    tree = _parse(repo, "value.py")
    bases = {}
    for st in tree.body:
        if isinstance(st, ast.ClassDef):
            bs = []
            for b in st.bases:
                if isinstance(b, ast.Name):
                    bs.append(b.id)
                elif isinstance(b, ast.Attribute):
                    bs.append(b.attr)
                elif isinstance(b, ast.Subscript) and isinstance(b.value, ast.Name):
                    bs.append(b.value.id)
            bases[st.name] = bs

    def anc(c, seen=()):
        out = []
        for b in bases.get(c, []):
            if b in seen:
                continue
            out.append(b)
            out += anc(b, seen + (b,))
        return list(dict.fromkeys(out))

    h = []
    for c in bases:
        a = anc(c)
        if c == "Value" or "Value" in a:
            h.append((c, [x for x in a if x in bases]))
    if len(h) < 10:
        raise TranslateError("value hierarchy suspiciously small")
    return h


def _isinstance_targets(test):
    """`isinstance(value, X)` or `isinstance(value, (X, Y))` -> [X, Y]"""
    if not (isinstance(test, ast.Call) and isinstance(test.func, ast.Name) and test.func.id == "isinstance" and len(test.args) == 2):
        raise TranslateError(f"boolability.py:{test.lineno}: chain test is not an isinstance call")
    if not (isinstance(test.args[0], ast.Name) and test.args[0].id == "value"):
        raise TranslateError(f"boolability.py:{test.lineno}: isinstance on something other than `value`")
    t = test.args[1]
    if isinstance(t, ast.Name):
        return [t.id]
    if isinstance(t, ast.Tuple) and all(isinstance(e, ast.Name) for e in t.elts):
        return [e.id for e in t.elts]
    raise TranslateError(f"boolability.py:{test.lineno}: unsupported isinstance target")


def _is_raise(stmts):
    if len(stmts) != 1:
        return False
    s = stmts[0]
    if isinstance(s, ast.Raise):
        return True
    return isinstance(s, ast.Assert) and isinstance(s.test, ast.Constant) and s.test.value is False


def boolability_chain(repo):
    tree = _parse(repo, "boolability.py")
    fn = _find(tree, ast.FunctionDef, "_get_boolability_no_mvv")
    body = [s for s in fn.body if not (isinstance(s, ast.Expr) and isinstance(s.value, ast.Constant))]
    unwrapped = []
    i = 0
    # leading `if isinstance(value, C): value = value.value` and `value = replace_known_sequence_value(value)`
    while i < len(body):
        s = body[i]
        if isinstance(s, ast.If) and not s.orelse and len(s.body) == 1 and isinstance(s.body[0], ast.Assign):
            unwrapped += _isinstance_targets(s.test)
            i += 1
        elif isinstance(s, ast.Assign) and isinstance(s.value, ast.Call) and isinstance(s.value.func, ast.Name) \
                and s.value.func.id == "replace_known_sequence_value":
            unwrapped += _replace_known_unwrapped(repo)
            i += 1
        else:
            break
    if i != len(body) - 1 or not isinstance(body[i], ast.If):
        raise TranslateError("boolability.py: _get_boolability_no_mvv is not `<unwrapping>; if/elif chain`")
    handled = []
    node = body[i]
    else_raises = False
    while True:
        handled += _isinstance_targets(node.test)
        if len(node.orelse) == 1 and isinstance(node.orelse[0], ast.If):
            node = node.orelse[0]
            continue
        if not node.orelse:
            raise TranslateError("boolability.py: chain has no else branch")
        else_raises = _is_raise(node.orelse)
        break
    return list(dict.fromkeys(unwrapped)), handled, else_raises


def _replace_known_unwrapped(repo):
    """classes that replace_known_sequence_value replaces by another value
    (`if isinstance(value, C): return replace_known_sequence_value(<other>)`)"""
    tree = _parse(repo, "value.py")
    fn = _find(tree, ast.FunctionDef, "replace_known_sequence_value")
    out = []
    for s in fn.body:
        if isinstance(s, ast.If) and len(s.body) == 1 and isinstance(s.body[0], ast.Return):
            r = s.body[0].value
            if isinstance(r, ast.Call) and isinstance(r.func, ast.Name) and r.func.id == "replace_known_sequence_value":
                t = s.test
                if isinstance(t, ast.Call) and isinstance(t.func, ast.Name) and t.func.id == "isinstance" and isinstance(t.args[1], ast.Name):
                    out.append(t.args[1].id)
    return out


def annotation_visitor(repo):
    tree = _parse(repo, "annotations.py")
    cls = _find(tree, ast.ClassDef, "_Visitor")
    methods, generic_raises = [], None
    for st in cls.body:
        if isinstance(st, ast.FunctionDef):
            if st.name.startswith("visit_"):
                methods.append(st.name[6:])
            elif st.name == "generic_visit":
                body = [s for s in st.body if not (isinstance(s, ast.Expr) and isinstance(s.value, ast.Constant))]
                generic_raises = any(isinstance(s, ast.Raise) for s in body)
    if generic_raises is None:
        # inherited ast.NodeVisitor.generic_visit visits children and returns None: no raise
        generic_raises = False
    return methods, generic_raises


def show_error_shape(repo):
    """Every `lines[<index>]` evaluated by BaseNodeVisitor.show_error, in source
    order, as (index text, test of the enclosing conditional expression whose
    body holds the subscript, or ""), the two bounds of the context loop and
    CONTEXT_LINES.  The Emit model is written for exactly this shape."""
    tree = _parse(repo, "node_visitor.py")
    cls = _find(tree, ast.ClassDef, "BaseNodeVisitor")
    fn = None
    ctx_lines = None
    for st in cls.body:
        if isinstance(st, ast.FunctionDef) and st.name == "show_error":
            fn = st
        if isinstance(st, ast.AnnAssign) and isinstance(st.target, ast.Name) and st.target.id == "CONTEXT_LINES":
            if isinstance(st.value, ast.Constant) and isinstance(st.value.value, int):
                ctx_lines = st.value.value
        if isinstance(st, ast.Assign) and len(st.targets) == 1 and isinstance(st.targets[0], ast.Name) \
                and st.targets[0].id == "CONTEXT_LINES" and isinstance(st.value, ast.Constant):
            ctx_lines = st.value.value
    if fn is None or ctx_lines is None:
        raise TranslateError("node_visitor.py: show_error / CONTEXT_LINES not found")
    parents = {}
    for n in ast.walk(fn):
        for c in ast.iter_child_nodes(n):
            parents[c] = n
    subs = []
    for n in ast.walk(fn):
        if isinstance(n, ast.Subscript) and isinstance(n.value, ast.Name) and n.value.id == "lines" and isinstance(n.ctx, ast.Load):
            guard = ""
            c = n
            while c in parents:
                p = parents[c]
                if isinstance(p, ast.IfExp) and p.body is c:
                    guard = ast.unparse(p.test)
                    break
                if isinstance(p, ast.stmt):
                    break
                c = p
            subs.append((n.lineno, n.col_offset, ast.unparse(n.slice), guard))
    subs.sort()
    bounds = {}
    for n in ast.walk(fn):
        if isinstance(n, ast.Assign) and len(n.targets) == 1 and isinstance(n.targets[0], ast.Name) \
                and n.targets[0].id in ("min_line", "max_line"):
            bounds[n.targets[0].id] = ast.unparse(n.value)
    if set(bounds) != {"min_line", "max_line"}:
        raise TranslateError("node_visitor.py: context loop bounds not found")
    return [(i, g) for _, _, i, g in subs], (bounds["min_line"], bounds["max_line"]), ctx_lines


def expr_kinds():
    return sorted(c.__name__ for c in ast.expr.__subclasses__())


def _s(x):
    return '"' + x + '"'


def _sl(xs):
    return "[" + "; ".join(_s(x) for x in xs) + "]"


def translate(repo: str) -> str:
    codes = error_codes(repo)
    h = value_hierarchy(repo)
    unwrapped, handled, else_raises = boolability_chain(repo)
    methods, generic_raises = annotation_visitor(repo)
    subs, bounds, ctx_lines = show_error_shape(repo)
    sub_rows = "; ".join(f"({_s(i)}, {_s(g)})" for i, g in subs)
    rows = ";\n".join(f"  ({_s(c)}, {_sl(a)})" for c, a in h)
    return (
        "(* GENERATED by harness/translate/total.py from pyanalyze/{error_code,value,boolability,annotations}.py -- do not edit *)\n"
        "From Coq Require Import String List Bool.\nRequire Import PV.Total.Dispatch.\nImport ListNotations.\nOpen Scope string_scope.\n\n"
        f"Definition registered_codes : list string := {_sl(codes)}%list.\n\n"
        f"Definition value_hierarchy : hierarchy := [\n{rows}\n]%list.\n\n"
        f"Definition boolability_unwrapped : list string := {_sl(unwrapped)}%list.\n"
        f"Definition boolability_handled : list string := {_sl(handled)}%list.\n"
        f"Definition boolability_else_raises : bool := {'true' if else_raises else 'false'}.\n\n"
        f"Definition annotation_visitor_methods : list string := {_sl(methods)}%list.\n"
        f"Definition annotation_generic_raises : bool := {'true' if generic_raises else 'false'}.\n"
        f"Definition expr_kinds : list string := {_sl(expr_kinds())}%list.\n\n"
        f"Definition show_error_subscripts : list (string * string) := [{sub_rows}]%list.\n"
        f"Definition show_error_context_bounds : string * string := ({_s(bounds[0])}, {_s(bounds[1])}).\n"
        f"Definition show_error_context_lines : nat := {ctx_lines}.\n"
    )


if __name__ == "__main__":
    import sys

    print(translate(sys.argv[1] if len(sys.argv) > 1 else "/repo"))
