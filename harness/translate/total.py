"""Translator for C12  ->  coq/theories/Gen/Total.v

Data regenerated from the current source (fail-closed `ast` walkers):

  registered_codes            members of error_code.ErrorCode
  value_hierarchy             every class of value.py deriving from Value, with its
                              transitive ancestors inside value.py
  boolability_unwrapped       classes that replace_known_sequence_value /
                              _get_boolability_no_mvv rewrite away before the chain
  boolability_handled         isinstance targets of the if/elif chain of
                              boolability._get_boolability_no_mvv, in order
  boolability_else_raises     whether the chain ends in `else: assert False`
  annotation_visitor_methods  visit_<Kind> methods of annotations._Visitor
  annotation_generic_raises   whether _Visitor.generic_visit raises
  expr_kinds                  the expression node kinds of this Python's `ast`
                              (data from the running interpreter)
  show_error_params           CONTEXT_LINES, the extra line after, and offset / guard of the previous-line
                              lookup of BaseNodeVisitor.show_error (translated; the shape around them is checked)
  typeis_index                NameCheckVisitor._get_typeis_parameter's index computation as a Gallina function
"""
from __future__ import annotations

import ast
from pathlib import Path


class TranslateError(Exception):
    pass


def _parse(repo, name):
    p = Path(repo) / "pyanalyze" / name
    if not p.exists():
        raise TranslateError(f"missing {name}")
    return ast.parse(p.read_text())


def _find(tree, kind, name):
    for n in ast.walk(tree):
        if isinstance(n, kind) and n.name == name:
            return n
    raise TranslateError(f"{name} not found")


def error_codes(repo):
    """ErrorCode = ErrorRegistry([Error("<name>", "<description>"), ...]) -> names
    (descriptions must be non-empty string constants: show_error falls back to them)"""
    tree = _parse(repo, "error_code.py")
    for st in tree.body:
        if isinstance(st, ast.Assign) and len(st.targets) == 1 and isinstance(st.targets[0], ast.Name) \
                and st.targets[0].id == "ErrorCode":
            call = st.value
            if not (isinstance(call, ast.Call) and isinstance(call.func, ast.Name) and call.func.id == "ErrorRegistry"
                    and len(call.args) == 1 and isinstance(call.args[0], ast.List)):
                raise TranslateError("error_code.py: ErrorCode is not ErrorRegistry([...])")
            names = []
            for e in call.args[0].elts:
                if not (isinstance(e, ast.Call) and isinstance(e.func, ast.Name) and e.func.id == "Error" and len(e.args) == 2
                        and isinstance(e.args[0], ast.Constant) and isinstance(e.args[0].value, str)):
                    raise TranslateError(f"error_code.py:{e.lineno}: entry is not Error(<name>, <description>)")
                try:
                    desc = ast.literal_eval(e.args[1])
                except Exception:
                    raise TranslateError(f"error_code.py:{e.lineno}: description is not a constant") from None
                if not isinstance(desc, str) or not desc.strip():
                    raise TranslateError(f"error_code.py:{e.lineno}: empty description for {e.args[0].value}")
                names.append(e.args[0].value)
            return names
    raise TranslateError("error_code.py: ErrorCode registry not found")


def value_hierarchy(repo):
    tree = _parse(repo, "value.py")
    bases = {}
    for st in tree.body:
        if isinstance(st, ast.ClassDef):
            bs = []
            for b in st.bases:
                if isinstance(b, ast.Name):
                    bs.append(b.id)
                elif isinstance(b, ast.Attribute):
                    bs.append(b.attr)
                elif isinstance(b, ast.Subscript) and isinstance(b.value, ast.Name):
                    bs.append(b.value.id)
            bases[st.name] = bs

    def anc(c, seen=()):
        out = []
        for b in bases.get(c, []):
            if b in seen:
                continue
            out.append(b)
            out += anc(b, seen + (b,))
        return list(dict.fromkeys(out))

    h = []
    for c in bases:
        a = anc(c)
        if c == "Value" or "Value" in a:
            h.append((c, [x for x in a if x in bases]))
    if len(h) < 10:
        raise TranslateError("value hierarchy suspiciously small")
    return h


def _isinstance_targets(test):
    """`isinstance(value, X)` or `isinstance(value, (X, Y))` -> [X, Y]"""
    if not (isinstance(test, ast.Call) and isinstance(test.func, ast.Name) and test.func.id == "isinstance" and len(test.args) == 2):
        raise TranslateError(f"boolability.py:{test.lineno}: chain test is not an isinstance call")
    if not (isinstance(test.args[0], ast.Name) and test.args[0].id == "value"):
        raise TranslateError(f"boolability.py:{test.lineno}: isinstance on something other than `value`")
    t = test.args[1]
    if isinstance(t, ast.Name):
        return [t.id]
    if isinstance(t, ast.Tuple) and all(isinstance(e, ast.Name) for e in t.elts):
        return [e.id for e in t.elts]
    raise TranslateError(f"boolability.py:{test.lineno}: unsupported isinstance target")


def _is_raise(stmts):
    if len(stmts) != 1:
        return False
    s = stmts[0]
    if isinstance(s, ast.Raise):
        return True
    return isinstance(s, ast.Assert) and isinstance(s.test, ast.Constant) and s.test.value is False


def boolability_chain(repo):
    tree = _parse(repo, "boolability.py")
    fn = _find(tree, ast.FunctionDef, "_get_boolability_no_mvv")
    body = [s for s in fn.body if not (isinstance(s, ast.Expr) and isinstance(s.value, ast.Constant))]
    unwrapped = []
    delegated = []
    i = 0
    # leading `if isinstance(value, C): value = value.value` and `value = replace_known_sequence_value(value)`
    while i < len(body):
        s = body[i]
        if isinstance(s, ast.If) and not s.orelse and len(s.body) == 1 and isinstance(s.body[0], ast.Assign):
            unwrapped += _isinstance_targets(s.test)
            i += 1
        elif isinstance(s, ast.Assign) and isinstance(s.value, ast.Call) and isinstance(s.value.func, ast.Name) \
                and s.value.func.id == "replace_known_sequence_value":
            unwrapped += _replace_known_unwrapped(repo)
            i += 1
        elif isinstance(s, ast.If) and not s.orelse and len(s.body) == 1 and isinstance(s.body[0], ast.Return) \
                and isinstance(s.body[0].value, ast.Call) and isinstance(s.body[0].value.func, ast.Name) \
                and s.body[0].value.func.id == "get_boolability":
            # `if isinstance(value, MultiValuedValue): return get_boolability(value)`: what unwrapping
            # produced is handed back to the union-aware entry point
            delegated += _isinstance_targets(s.test)
            i += 1
        else:
            break
    if i != len(body) - 1 or not isinstance(body[i], ast.If):
        raise TranslateError("boolability.py: _get_boolability_no_mvv is not `<unwrapping>; if/elif chain`")
    handled = []
    node = body[i]
    else_raises = False
    while True:
        handled += _isinstance_targets(node.test)
        if len(node.orelse) == 1 and isinstance(node.orelse[0], ast.If):
            node = node.orelse[0]
            continue
        if not node.orelse:
            raise TranslateError("boolability.py: chain has no else branch")
        else_raises = _is_raise(node.orelse)
        break
    return list(dict.fromkeys(unwrapped)), handled, else_raises, delegated


def _replace_known_unwrapped(repo):
    """classes that replace_known_sequence_value replaces by another value
    (`if isinstance(value, C): return replace_known_sequence_value(<other>)`)"""
    tree = _parse(repo, "value.py")
    fn = _find(tree, ast.FunctionDef, "replace_known_sequence_value")
    out = []
    for s in fn.body:
        if isinstance(s, ast.If) and len(s.body) == 1 and isinstance(s.body[0], ast.Return):
            r = s.body[0].value
            if isinstance(r, ast.Call) and isinstance(r.func, ast.Name) and r.func.id == "replace_known_sequence_value":
                t = s.test
                if isinstance(t, ast.Call) and isinstance(t.func, ast.Name) and t.func.id == "isinstance" and isinstance(t.args[1], ast.Name):
                    out.append(t.args[1].id)
    return out


def annotation_visitor(repo):
    tree = _parse(repo, "annotations.py")
    cls = _find(tree, ast.ClassDef, "_Visitor")
    methods, generic_raises = [], None
    for st in cls.body:
        if isinstance(st, ast.FunctionDef):
            if st.name.startswith("visit_"):
                methods.append(st.name[6:])
            elif st.name == "generic_visit":
                body = [s for s in st.body if not (isinstance(s, ast.Expr) and isinstance(s.value, ast.Constant))]
                generic_raises = any(isinstance(s, ast.Raise) for s in body)
    if generic_raises is None:
        # inherited ast.NodeVisitor.generic_visit visits children and returns None: no raise
        generic_raises = False
    return methods, generic_raises


def _int_const(e):
    if isinstance(e, ast.Constant) and isinstance(e.value, int) and not isinstance(e.value, bool):
        return e.value
    return None


def _lineno_minus(e, var="lineno"):
    """`<var> - K` -> K"""
    if isinstance(e, ast.BinOp) and isinstance(e.op, ast.Sub) and isinstance(e.left, ast.Name) and e.left.id == var:
        return _int_const(e.right)
    return None


def show_error_params(repo):
    """The constants of BaseNodeVisitor.show_error's location/context part, TRANSLATED (the
    surrounding shape is checked, anything else fails closed):
        this_line = lines[lineno - 1]
        prev_line = lines[lineno - B]... if lineno >= M else ...
        min_line = max(lineno - self.CONTEXT_LINES, 1)
        max_line = min(lineno + self.CONTEXT_LINES + E, len(lines) + 1)
        for i in range(min_line, max_line): ... lines[i - 1]
    further guarded previous-line lookups (the add-ignores branch) are collected as (B, M) pairs;
    slices of `lines` never raise and are skipped
    -> (CONTEXT_LINES, E, B, M, [(B', M'), ...])"""
    tree = _parse(repo, "node_visitor.py")
    cls = _find(tree, ast.ClassDef, "BaseNodeVisitor")
    fn, ctx_lines = None, None
    for st in cls.body:
        if isinstance(st, ast.FunctionDef) and st.name == "show_error":
            fn = st
        tgt = st.target if isinstance(st, ast.AnnAssign) else st.targets[0] if isinstance(st, ast.Assign) and len(st.targets) == 1 else None
        if isinstance(tgt, ast.Name) and tgt.id == "CONTEXT_LINES":
            ctx_lines = _int_const(st.value)
    if fn is None or ctx_lines is None:
        raise TranslateError("node_visitor.py: show_error / CONTEXT_LINES not found")
    parents = {}
    for n in ast.walk(fn):
        for c in ast.iter_child_nodes(n):
            parents[c] = n
    prevs = []
    for n in ast.walk(fn):
        if not (isinstance(n, ast.Subscript) and isinstance(n.value, ast.Name) and n.value.id == "lines" and isinstance(n.ctx, ast.Load)):
            continue
        if isinstance(n.slice, ast.Slice):
            continue  # a slice of `lines` never raises
        k = _lineno_minus(n.slice)
        ki = _lineno_minus(n.slice, "i")
        if ki is not None:
            if ki != 1:
                raise TranslateError(f"node_visitor.py:{n.lineno}: context loop reads lines[i - {ki}], expected lines[i - 1]")
            continue
        if k is None:
            raise TranslateError(f"node_visitor.py:{n.lineno}: unsupported subscript of lines: {ast.unparse(n)}")
        if k == 1:
            continue  # this_line (also re-read by the add-ignores fixer)
        # any other offset must be the guarded previous-line lookup
        c, guard = n, None
        while c in parents and not isinstance(parents[c], ast.stmt):
            p = parents[c]
            if isinstance(p, ast.IfExp) and p.body is c:
                t = p.test
                if isinstance(t, ast.Compare) and len(t.ops) == 1 and isinstance(t.ops[0], ast.GtE) \
                        and isinstance(t.left, ast.Name) and t.left.id == "lineno":
                    guard = _int_const(t.comparators[0])
                break
            c = p
        if guard is None:
            raise TranslateError(f"node_visitor.py:{n.lineno}: lines[lineno - {k}] is not guarded by `... if lineno >= M else ...`")
        prevs.append((n.lineno, k, guard))
    if not prevs:
        raise TranslateError("node_visitor.py: previous-line subscript not found in show_error")
    prevs.sort()
    prev = (prevs[0][1], prevs[0][2])           # the ignore-comment test: always evaluated
    more = [(k, g) for _, k, g in prevs[1:]]    # later ones (add-ignores branch)
    after = None
    seen_min = False
    for n in ast.walk(fn):
        if isinstance(n, ast.Assign) and len(n.targets) == 1 and isinstance(n.targets[0], ast.Name):
            v = n.value
            if n.targets[0].id == "min_line":
                ok = (isinstance(v, ast.Call) and _name_of(v.func) == "max" and len(v.args) == 2
                      and ast.unparse(v.args[0]) == "lineno - self.CONTEXT_LINES" and _int_const(v.args[1]) == 1)
                if not ok:
                    raise TranslateError(f"node_visitor.py:{n.lineno}: min_line is not max(lineno - self.CONTEXT_LINES, 1)")
                seen_min = True
            if n.targets[0].id == "max_line":
                ok = isinstance(v, ast.Call) and _name_of(v.func) == "min" and len(v.args) == 2 and ast.unparse(v.args[1]) == "len(lines) + 1"
                a0 = v.args[0] if ok else None
                if ok and isinstance(a0, ast.BinOp) and isinstance(a0.op, ast.Add) and ast.unparse(a0.left) == "lineno + self.CONTEXT_LINES":
                    after = _int_const(a0.right)
                elif ok and ast.unparse(a0) == "lineno + self.CONTEXT_LINES":
                    after = 0
                if after is None:
                    raise TranslateError(f"node_visitor.py:{n.lineno}: max_line is not min(lineno + self.CONTEXT_LINES + E, len(lines) + 1)")
    if not seen_min or after is None:
        raise TranslateError("node_visitor.py: context loop bounds not found")
    return ctx_lines, after, prev[0], prev[1], more


def column_converted(repo):
    """Does show_error convert ast's byte offset into a character offset, i.e. assign
    `col_offset = len(<bytes>[:col_offset].decode(...))`?"""
    tree = _parse(repo, "node_visitor.py")
    cls = _find(tree, ast.ClassDef, "BaseNodeVisitor")
    fn = [st for st in cls.body if isinstance(st, ast.FunctionDef) and st.name == "show_error"][0]
    for n in ast.walk(fn):
        if isinstance(n, ast.Assign) and len(n.targets) == 1 and isinstance(n.targets[0], ast.Name) and n.targets[0].id == "col_offset":
            v = n.value
            if isinstance(v, ast.Call) and _name_of(v.func) == "len" and len(v.args) == 1:
                inner = v.args[0]
                if isinstance(inner, ast.Call) and isinstance(inner.func, ast.Attribute) and inner.func.attr == "decode":
                    sub = inner.func.value
                    if isinstance(sub, ast.Subscript) and isinstance(sub.slice, ast.Slice) and sub.slice.lower is None \
                            and isinstance(sub.slice.upper, ast.Name) and sub.slice.upper.id == "col_offset":
                        return True
                raise TranslateError(f"node_visitor.py:{n.lineno}: col_offset is reassigned in an unsupported way")
    return False


def _name_of(e):
    return e.id if isinstance(e, ast.Name) else e.attr if isinstance(e, ast.Attribute) else None


def _enum_tests(test):
    """`S is E.m`, `S == E.m`, or an `or` of such with the same S and E -> (S, E, [m...]); else None"""
    if isinstance(test, ast.BoolOp) and isinstance(test.op, ast.Or):
        parts = [_enum_tests(v) for v in test.values]
        if any(p is None for p in parts) or len({(p[0], p[1]) for p in parts}) != 1:
            return None
        return parts[0][0], parts[0][1], [m for p in parts for m in p[2]]
    if isinstance(test, ast.Compare) and len(test.ops) == 1 and isinstance(test.ops[0], (ast.Is, ast.Eq)):
        rhs = test.comparators[0]
        if isinstance(rhs, ast.Attribute) and isinstance(rhs.value, ast.Name):
            return ast.unparse(test.left), rhs.value.id, [rhs.attr]
    return None


def enum_chains(repo):
    """Every if/elif chain of the package whose tests all compare ONE subject with members of
    ONE enum and whose else branch raises / asserts False; and the members of those enums."""
    base = Path(repo) / "pyanalyze"
    enums, chains = {}, []
    trees = []
    for p in sorted(base.glob("*.py")):
        if p.name.startswith("test_") or p.name in ("tests.py", "conftest.py"):
            continue
        trees.append((p.name, ast.parse(p.read_text())))
    for fname, tree in trees:
        for n in ast.walk(tree):
            if isinstance(n, ast.ClassDef) and any((isinstance(b, ast.Attribute) and b.attr in ("Enum", "IntEnum")) or
                                                    (isinstance(b, ast.Name) and b.id in ("Enum", "IntEnum")) for b in n.bases):
                members = [st.targets[0].id for st in n.body
                           if isinstance(st, ast.Assign) and len(st.targets) == 1 and isinstance(st.targets[0], ast.Name)
                           and not st.targets[0].id.startswith("_")]
                enums[n.name] = members
    for fname, tree in trees:
        parents = {}
        for n in ast.walk(tree):
            for c in ast.iter_child_nodes(n):
                parents[c] = n
        for n in ast.walk(tree):
            if not isinstance(n, ast.If):
                continue
            par = parents.get(n)
            if isinstance(par, ast.If) and par.orelse == [n]:
                continue
            node, tests = n, []
            while True:
                tests.append(node.test)
                if len(node.orelse) == 1 and isinstance(node.orelse[0], ast.If):
                    node = node.orelse[0]
                    continue
                break
            if not _is_raise(node.orelse):
                continue
            parsed = [_enum_tests(t) for t in tests]
            if any(p is None for p in parsed) or len({(p[0], p[1]) for p in parsed}) != 1:
                continue
            subj, enum = parsed[0][0], parsed[0][1]
            if enum not in enums:
                continue
            fn = n
            while fn in parents and not isinstance(fn, (ast.FunctionDef, ast.AsyncFunctionDef)):
                fn = parents[fn]
            chains.append((fname, getattr(fn, "name", "<module>"), subj, enum, [m for p in parsed for m in p[2]]))
    used = sorted({c[3] for c in chains})
    return sorted(chains), [(e, enums[e]) for e in used]


def bound_chain(repo):
    """typevar.solve dispatches on the Bound classes of value.py"""
    tree = _parse(repo, "typevar.py")
    fn = _find(tree, ast.FunctionDef, "solve")
    handled = None
    for n in ast.walk(fn):
        if isinstance(n, ast.If):
            node, targets, ok = n, [], True
            while True:
                try:
                    t = node.test
                    if not (isinstance(t, ast.Call) and isinstance(t.func, ast.Name) and t.func.id == "isinstance"
                            and isinstance(t.args[0], ast.Name) and t.args[0].id == "bound"):
                        ok = False
                        break
                    a = t.args[1]
                    targets += [a.id] if isinstance(a, ast.Name) else [e.id for e in a.elts]
                except Exception:
                    ok = False
                    break
                if len(node.orelse) == 1 and isinstance(node.orelse[0], ast.If):
                    node = node.orelse[0]
                    continue
                break
            if ok and _is_raise(node.orelse) and len(targets) >= 3:
                handled = targets
                break
    if handled is None:
        raise TranslateError("typevar.py: isinstance chain over bounds in solve() not found")
    vtree = _parse(repo, "value.py")
    bases = {st.name: [b.id for b in st.bases if isinstance(b, ast.Name)] for st in vtree.body if isinstance(st, ast.ClassDef)}

    def derives(c):
        seen, todo = set(), [c]
        while todo:
            x = todo.pop()
            for b in bases.get(x, []):
                if b == "Bound":
                    return True
                if b not in seen:
                    seen.add(b)
                    todo.append(b)
        return False

    family = [c for c in bases if derives(c)]
    if not family:
        raise TranslateError("value.py: no Bound subclasses found")
    return handled, family


# ---------------------------------------------------------------------------
# NameCheckVisitor._get_typeis_parameter: the computation of the parameter index and its
# guard are TRANSLATED (statement by statement) into a Gallina function, so that a
# behaviour-preserving rewrite re-proves and a wrong guard does not.


def _ti_cond(e, env):
    """Python condition -> Gallina bool over cm, im (is_classmethod / is_instancemethod) and n = len(info.params)"""
    if isinstance(e, ast.BoolOp):
        op = "||" if isinstance(e.op, ast.Or) else "&&"
        return "(" + f" {op} ".join(_ti_cond(v, env) for v in e.values) + ")"
    if isinstance(e, ast.UnaryOp) and isinstance(e.op, ast.Not):
        return f"(negb {_ti_cond(e.operand, env)})"
    if isinstance(e, ast.Attribute) and isinstance(e.value, ast.Name) and e.value.id == "info":
        if e.attr == "is_classmethod":
            return "cm"
        if e.attr == "is_instancemethod":
            return "im"
        if e.attr == "params":
            return "(negb (n =? 0))"
    if isinstance(e, ast.Compare) and len(e.ops) == 1:
        a, b = _ti_nat(e.left, env), _ti_nat(e.comparators[0], env)
        op = e.ops[0]
        if isinstance(op, ast.LtE):
            return f"({a} <=? {b})"
        if isinstance(op, ast.Lt):
            return f"({a} <? {b})"
        if isinstance(op, ast.GtE):
            return f"({b} <=? {a})"
        if isinstance(op, ast.Gt):
            return f"({b} <? {a})"
        if isinstance(op, ast.Eq):
            return f"({a} =? {b})"
        if isinstance(op, ast.NotEq):
            return f"(negb ({a} =? {b}))"
    raise TranslateError(f"name_check_visitor.py:{getattr(e, 'lineno', '?')}: unsupported condition in _get_typeis_parameter: {ast.unparse(e)}")


def _ti_nat(e, env):
    if isinstance(e, ast.Constant) and isinstance(e.value, int) and not isinstance(e.value, bool) and e.value >= 0:
        return str(e.value)
    if isinstance(e, ast.Name) and e.id in env:
        return env[e.id]
    if isinstance(e, ast.IfExp):
        return f"(if {_ti_cond(e.test, env)} then {_ti_nat(e.body, env)} else {_ti_nat(e.orelse, env)})"
    if isinstance(e, ast.Call) and isinstance(e.func, ast.Name) and e.func.id == "len" and len(e.args) == 1 \
            and ast.unparse(e.args[0]) == "info.params":
        return "n"
    if isinstance(e, ast.BinOp) and isinstance(e.op, ast.Add):
        return f"({_ti_nat(e.left, env)} + {_ti_nat(e.right, env)})"
    raise TranslateError(f"name_check_visitor.py:{getattr(e, 'lineno', '?')}: unsupported index expression in _get_typeis_parameter: {ast.unparse(e)}")


def typeis_index(repo):
    tree = _parse(repo, "name_check_visitor.py")
    fn = _find(tree, ast.FunctionDef, "_get_typeis_parameter")
    env, guards = {}, []
    for st in fn.body:
        if isinstance(st, ast.Expr) and isinstance(st.value, ast.Constant):
            continue
        subs = [n for n in ast.walk(st) if isinstance(n, ast.Subscript) and ast.unparse(n.value) == "info.params"]
        if subs:
            if len({ast.unparse(x.slice) for x in subs}) != 1:
                raise TranslateError("name_check_visitor.py: several different subscripts of info.params")
            idx = _ti_nat(subs[0].slice, env)
            body = f"Some {idx}"
            for g in reversed(guards):
                body = f"if {g} then None else {body}"
            return f"Definition typeis_index (cm im : bool) (n : nat) : option nat :=\n  {body}.\n"
        if isinstance(st, ast.Assign) and len(st.targets) == 1 and isinstance(st.targets[0], ast.Name):
            env[st.targets[0].id] = _ti_nat(st.value, env)
        elif isinstance(st, ast.If) and not st.orelse and len(st.body) == 1:
            c = _ti_cond(st.test, env)
            b = st.body[0]
            if isinstance(b, ast.Return) and (b.value is None or (isinstance(b.value, ast.Constant) and b.value.value is None)):
                guards.append(c)
            elif isinstance(b, ast.Assign) and len(b.targets) == 1 and isinstance(b.targets[0], ast.Name) and b.targets[0].id in env:
                v = b.targets[0].id
                env[v] = f"(if {c} then {_ti_nat(b.value, env)} else {env[v]})"
            else:
                raise TranslateError(f"name_check_visitor.py:{st.lineno}: unsupported statement in _get_typeis_parameter")
        else:
            raise TranslateError(f"name_check_visitor.py:{st.lineno}: unsupported statement in _get_typeis_parameter")
    raise TranslateError("name_check_visitor.py: _get_typeis_parameter never subscripts info.params")


def expr_kinds():
    return sorted(c.__name__ for c in ast.expr.__subclasses__())


def _s(x):
    return '"' + x + '"'


def _sl(xs):
    return "[" + "; ".join(_s(x) for x in xs) + "]"


def translate(repo: str) -> str:
    codes = error_codes(repo)
    h = value_hierarchy(repo)
    unwrapped, handled, else_raises, delegated = boolability_chain(repo)
    methods, generic_raises = annotation_visitor(repo)
    se_c, se_e, se_b, se_m, se_more = show_error_params(repo)
    se_more_txt = "[" + "; ".join(f"({b}%Z, {m}%Z)" for b, m in se_more) + "]"
    chains, enums = enum_chains(repo)
    bhandled, bfamily = bound_chain(repo)
    chain_rows = ";\n".join(f"  ({_s(f)}, {_s(fn)}, {_s(subj)}, {_s(e)}, {_sl(ms)})" for f, fn, subj, e, ms in chains)
    enum_rows = "; ".join(f"({_s(e)}, {_sl(ms)})" for e, ms in enums)
    rows = ";\n".join(f"  ({_s(c)}, {_sl(a)})" for c, a in h)
    return (
        "(* GENERATED by harness/translate/total.py from pyanalyze/{error_code,value,boolability,annotations}.py -- do not edit *)\n"
        "From Coq Require Import String List Bool Arith ZArith.\nRequire Import PV.Total.Dispatch PV.Total.Emit.\nImport ListNotations.\n\n"
        "(* translated from NameCheckVisitor._get_typeis_parameter: None = returns before info.params[...] *)\n"
        "Open Scope nat_scope.\n" + typeis_index(repo) + "\nOpen Scope string_scope.\n\n"
        f"Definition registered_codes : list string := {_sl(codes)}%list.\n\n"
        f"Definition value_hierarchy : hierarchy := [\n{rows}\n]%list.\n\n"
        f"Definition boolability_unwrapped : list string := {_sl(unwrapped)}%list.\n"
        f"Definition boolability_handled : list string := {_sl(handled)}%list.\n"
        f"Definition boolability_else_raises : bool := {'true' if else_raises else 'false'}.\n"
        f"Definition boolability_delegated : list string := {_sl(delegated)}%list.\n\n"
        f"Definition annotation_visitor_methods : list string := {_sl(methods)}%list.\n"
        f"Definition annotation_generic_raises : bool := {'true' if generic_raises else 'false'}.\n"
        f"Definition expr_kinds : list string := {_sl(expr_kinds())}%list.\n\n"
        f"Definition show_error_params : emit_params :=\n"
        f"  {{| ep_context := {se_c}%Z; ep_after_extra := {se_e}%Z; ep_prev_off := {se_b}%Z; ep_prev_min := {se_m}%Z;\n"
        f"     ep_more_prev := {se_more_txt}%list |}}.\n"
        f"Definition column_converted : bool := {'true' if column_converted(repo) else 'false'}.\n\n"
        f"Definition enum_members : list (string * list string) := [{enum_rows}]%list.\n"
        f"Definition enum_chains : list (string * string * string * string * list string) := [\n{chain_rows}\n]%list.\n"
        f"Definition bound_chain_handled : list string := {_sl(bhandled)}%list.\n"
        f"Definition bound_family : list string := {_sl(bfamily)}%list.\n"
    )


if __name__ == "__main__":
    import sys

    print(translate(sys.argv[1] if len(sys.argv) > 1 else "/repo"))
