"""Translator: pyanalyze/type_evaluation.py (+ the evaluator hand-off in signature.py)
-> coq/theories/Gen/TypeEvalGen.v  (C20).

1. The three argument-kind predicates of ConditionEvaluator.visit_Call
   (`match = position is not DEFAULT and ...`) are translated expression by
   expression into `gen_kind_match`; obligation `gen_kind_match_is_model`
   proves it equal to the hand-written `Eval.TypeEval.kind_match`.
2. The regions the rest of the model mirrors are pinned (see regions.py).
"""
import ast

from .regions import TranslateError, coq_pins, digest, find, one_statement, parse, pin_function

REL = "pyanalyze/type_evaluation.py"
SIG = "pyanalyze/signature.py"
MARK = {"DEFAULT": "PDefault", "UNKNOWN": "PUnknown", "ARGS": "PArgs", "KWARGS": "PKwargs"}
FN = {"is_provided": "KProvided", "is_positional": "KPositional", "is_keyword": "KKeyword"}


def _fail(node, why):
    raise TranslateError(f"{REL}:{getattr(node, 'lineno', '?')}: visit_Call: {why}: {ast.dump(node)[:160]}")


def pexpr(e):
    if isinstance(e, ast.BoolOp):
        op = " && " if isinstance(e.op, ast.And) else " || "
        return "(" + op.join(pexpr(v) for v in e.values) + ")"
    if isinstance(e, ast.UnaryOp) and isinstance(e.op, ast.Not):
        return f"(negb {pexpr(e.operand)})"
    if isinstance(e, ast.Compare) and len(e.ops) == 1 and isinstance(e.left, ast.Name) and e.left.id == "position":
        r = e.comparators[0]
        if isinstance(r, ast.Name) and r.id in MARK:
            if isinstance(e.ops[0], ast.Is):
                return f"(posn_eqb p {MARK[r.id]})"
            if isinstance(e.ops[0], ast.IsNot):
                return f"(negb (posn_eqb p {MARK[r.id]}))"
    if (isinstance(e, ast.Call) and isinstance(e.func, ast.Name) and e.func.id == "isinstance" and len(e.args) == 2
            and isinstance(e.args[0], ast.Name) and e.args[0].id == "position" and isinstance(e.args[1], ast.Name)
            and e.args[1].id in ("int", "str")):
        return f"(posn_eqb p {'PInt' if e.args[1].id == 'int' else 'PStr'})"
    _fail(e, "unsupported position test")


def translate_kinds(tree):
    fn = find(tree, "ConditionEvaluator.visit_Call", REL)
    found = {}
    for n in ast.walk(fn):
        if (isinstance(n, ast.If) and isinstance(n.test, ast.Compare) and isinstance(n.test.left, ast.Name) and n.test.left.id == "name"
                and len(n.test.ops) == 1 and isinstance(n.test.ops[0], ast.Eq) and isinstance(n.test.comparators[0], ast.Constant)
                and n.test.comparators[0].value in FN):
            which = n.test.comparators[0].value
            if len(n.body) != 1 or not (isinstance(n.body[0], ast.Assign) and isinstance(n.body[0].targets[0], ast.Name)
                                        and n.body[0].targets[0].id == "match"):
                _fail(n, f"branch for {which} must be a single `match = ...`")
            if which in found:
                _fail(n, f"two branches for {which}")
            found[which] = pexpr(n.body[0].value)
    if set(found) != set(FN):
        raise TranslateError(f"{REL}: visit_Call: branches found for {sorted(found)}, expected {sorted(FN)}")
    # what happens with `match`: true -> left_varmap={}, false -> right_varmap={}
    use = one_statement(fn, lambda n: isinstance(n, ast.If) and isinstance(n.test, ast.Name) and n.test.id == "match", "`if match:`", REL)
    d = ast.dump(use)
    if not ("left_varmap" in ast.dump(use.body[0]) and "right_varmap" in ast.dump(use.orelse[0]) and "right_varmap" not in ast.dump(use.body[0])):
        _fail(use, "`if match:` must return left_varmap={} and otherwise right_varmap={}")
    rows = "\n".join(f"  | {FN[k]} => {found[k]}" for k in FN)
    return (
        "Definition posn_eqb (a b : posn) : bool :=\n  match a, b with\n"
        "  | PInt, PInt | PStr, PStr | PDefault, PDefault | PArgs, PArgs | PKwargs, PKwargs | PUnknown, PUnknown => true\n"
        "  | _, _ => false\n  end.\n\n"
        "Definition gen_kind_match (f : kindfn) (p : posn) : bool :=\n  match f with\n" + rows + "\n  end.\n"
    )


# ---------------------------------------------------------------------------
# ConditionEvaluator.visit_BoolOp: the and / or bookkeeping


def _bfail(node, why):
    raise TranslateError(f"{REL}:{getattr(node, 'lineno', '?')}: visit_BoolOp: {why}: {ast.dump(node)[:160]}")


SIDE = {"left_varmap": "fst res", "right_varmap": "snd res"}


def _res_attr(e):
    """result.left_varmap / result.right_varmap -> the attribute name"""
    if isinstance(e, ast.Attribute) and isinstance(e.value, ast.Name) and e.value.id == "result" and e.attr in SIDE:
        return e.attr
    return None


def bool_cond(e):
    if isinstance(e, ast.Compare) and len(e.ops) == 1 and _res_attr(e.left) and isinstance(e.comparators[0], ast.Constant) and e.comparators[0].value is None:
        t = f"(is_none ({SIDE[_res_attr(e.left)]}))"
        if isinstance(e.ops[0], ast.Is):
            return t
        if isinstance(e.ops[0], ast.IsNot):
            return f"(negb {t})"
    if isinstance(e, ast.UnaryOp) and isinstance(e.op, ast.Not):
        return f"(negb {bool_cond(e.operand)})"
    _bfail(e, "unsupported test on result")


def bool_branch(stmts):
    """one branch of the per-operand if-chain: either an early return, or
    narrowed_varmap.update(X); stack.enter_context(self.ctx.narrow_variables(X)); [remaining_varmaps.append(Y)]"""
    if len(stmts) == 1 and isinstance(stmts[0], ast.If):
        st = stmts[0]
        return f"(if {bool_cond(st.test)} then {bool_branch(st.body)} else {bool_branch(st.orelse)})"
    if len(stmts) == 1 and isinstance(stmts[0], ast.Return):
        v = stmts[0].value
        if not (isinstance(v, ast.Call) and getattr(v.func, "id", None) == "ConditionReturn" and not v.args):
            _bfail(stmts[0], "early exit must be ConditionReturn(<side>=_unite_with_remaining(...), condition=...)")
        kws = {k.arg: k.value for k in v.keywords}
        sides = [k for k in kws if k in SIDE]
        if set(kws) - {"condition"} != set(sides) or len(sides) != 1:
            _bfail(stmts[0], "early exit must set exactly one of left_varmap / right_varmap")
        side = sides[0]
        u = kws[side]
        if not (isinstance(u, ast.Call) and getattr(u.func, "id", None) == "_unite_with_remaining" and len(u.args) == 2
                and getattr(u.args[0], "id", None) == "remaining_varmaps" and _res_attr(u.args[1])):
            _bfail(u, "expected _unite_with_remaining(remaining_varmaps, result.<side>)")
        val = f"(unite_with_remaining remaining ({SIDE[_res_attr(u.args[1])]}))"
        return f"(BReturn {'(' + val + ', None)' if side == 'left_varmap' else '(None, ' + val + ')'})"
    upd = ctxn = app = None
    for st in stmts:
        c = st.value if isinstance(st, ast.Expr) else None
        if not isinstance(c, ast.Call) or not isinstance(c.func, ast.Attribute) or len(c.args) != 1:
            _bfail(st, "unsupported statement")
        tgt, meth = c.func.value, c.func.attr
        if getattr(tgt, "id", None) == "narrowed_varmap" and meth == "update" and _res_attr(c.args[0]) and upd is None:
            upd = _res_attr(c.args[0])
        elif getattr(tgt, "id", None) == "remaining_varmaps" and meth == "append" and _res_attr(c.args[0]) and app is None:
            app = _res_attr(c.args[0])
        elif (getattr(tgt, "id", None) == "stack" and meth == "enter_context" and isinstance(c.args[0], ast.Call)
              and isinstance(c.args[0].func, ast.Attribute) and c.args[0].func.attr == "narrow_variables"
              and len(c.args[0].args) == 1 and _res_attr(c.args[0].args[0]) and ctxn is None):
            ctxn = _res_attr(c.args[0].args[0])
        else:
            _bfail(st, "unsupported statement")
    if upd is None or ctxn is None or upd != ctxn:
        _bfail(stmts[0], "a continuing branch must update narrowed_varmap and narrow the context with the same varmap")
    if app is not None and app == upd:
        _bfail(stmts[0], "remaining_varmaps must get the other side")
    x = f"(the ({SIDE[upd]}))"
    rem = f"(remaining ++ [the ({SIDE[app]})])" if app else "remaining"
    return f"(BContinue {x} ({x} ++ narrowed) {rem})"


def translate_boolop(tree):
    fn = find(tree, "ConditionEvaluator.visit_BoolOp", REL)
    body = [st for st in fn.body if not (isinstance(st, ast.Expr) and isinstance(st.value, ast.Constant))]
    want = ["If", "Assign", "Assign", "Assign", "Assign", "Assign", "With", "If"]
    if [type(st).__name__ for st in body] != want:
        _bfail(fn, f"expected statements {want}")
    if not (isinstance(body[0].test, ast.Attribute) and body[0].test.attr == "validation_mode"):
        _bfail(body[0], "first statement must be the validation_mode shortcut")
    inits = {st.targets[0].id: ast.dump(st.value) for st in body[1:6]}
    exp = {"active": ast.dump(ast.parse("[]").body[0].value), "remaining_varmaps": ast.dump(ast.parse("[]").body[0].value),
           "narrowed_varmap": ast.dump(ast.parse("{}").body[0].value),
           "is_and": ast.dump(ast.parse("isinstance(node.op, ast.And)").body[0].value),
           "stack": ast.dump(ast.parse("contextlib.ExitStack()").body[0].value)}
    if inits != exp:
        _bfail(fn, "unexpected initialisation of active / is_and / remaining_varmaps / narrowed_varmap / stack")
    w = body[6]
    if not (len(w.items) == 1 and getattr(w.items[0].context_expr, "id", None) == "stack" and len(w.body) == 1 and isinstance(w.body[0], ast.For)):
        _bfail(w, "expected `with stack: for operand in node.values:`")
    loop = w.body[0]
    if not (getattr(loop.target, "id", None) == "operand" and ast.dump(loop.iter) == ast.dump(ast.parse("node.values").body[0].value)
            and len(loop.body) == 3 and not loop.orelse):
        _bfail(loop, "expected `for operand in node.values:` with three statements")
    s0, s1, s2 = loop.body
    if ast.dump(s0) != ast.dump(ast.parse("result = self.visit(operand)").body[0]):
        _bfail(s0, "expected result = self.visit(operand)")
    if ast.dump(s1) != ast.dump(ast.parse("active.append(result.condition)").body[0]):
        _bfail(s1, "expected active.append(result.condition)")
    if not (isinstance(s2, ast.If) and getattr(s2.test, "id", None) == "is_and"):
        _bfail(s2, "expected `if is_and:`")
    and_step, or_step = bool_branch(s2.body), bool_branch(s2.orelse)
    end = body[7]
    if not (getattr(end.test, "id", None) == "is_and" and len(end.body) == 1 and len(end.orelse) == 1):
        _bfail(end, "expected the final `if is_and: return ... else: return ...`")

    def final(ret):
        v = ret.value if isinstance(ret, ast.Return) else None
        if not (isinstance(v, ast.Call) and getattr(v.func, "id", None) == "ConditionReturn" and len(v.args) == 1):
            _bfail(ret, "expected return ConditionReturn(ConditionList(active), left_varmap=..., right_varmap=...)")
        kws = {k.arg: k.value for k in v.keywords}
        if set(kws) != {"left_varmap", "right_varmap"}:
            _bfail(ret, "final result must set both varmaps")

        def side(e):
            if getattr(e, "id", None) == "narrowed_varmap":
                return "(Some narrowed)"
            if (isinstance(e, ast.Call) and getattr(e.func, "id", None) == "unite_varmaps" and len(e.args) == 1
                    and getattr(e.args[0], "id", None) == "remaining_varmaps"):
                return "(unite_varmaps remaining)"
            _bfail(e, "unsupported final varmap")

        return f"({side(kws['left_varmap'])}, {side(kws['right_varmap'])})"

    return (
        "Definition gen_and_step (narrowed : varmap) (remaining : list varmap) (res : cret) : bstep :=\n  " + and_step + ".\n\n"
        "Definition gen_or_step (narrowed : varmap) (remaining : list varmap) (res : cret) : bstep :=\n  " + or_step + ".\n\n"
        "Definition gen_and_end (narrowed : varmap) (remaining : list varmap) : cret :=\n  " + final(end.body[0]) + ".\n\n"
        "Definition gen_or_end (narrowed : varmap) (remaining : list varmap) : cret :=\n  " + final(end.orelse[0]) + ".\n"
    )


def pins(repo):
    tree = parse(repo, REL)
    out = {}
    for name, qual in [
        ("pin_visit_is_of_type", "ConditionEvaluator.visit_is_of_type"),
        ("pin_visit_UnaryOp", "ConditionEvaluator.visit_UnaryOp"),
        ("pin_visit_Compare", "ConditionEvaluator.visit_Compare"),
        ("pin_reverse", "ConditionReturn.reverse"),
        ("pin_decompose_union", "decompose_union"),
        ("pin_can_assign_maybe_exclude_any", "can_assign_maybe_exclude_any"),
        ("pin_unite_varmaps", "unite_varmaps"),
        ("pin_unite_with_remaining", "_unite_with_remaining"),
        ("pin_narrow_variables", "EvalContext.narrow_variables"),
        ("pin_combined_make", "CombinedReturn.make"),
        ("pin_evaluate", "Evaluator.evaluate"),
        ("pin_evaluate_ret", "EvaluateVisitor._evaluate_ret"),
        ("pin_visit_block", "EvaluateVisitor.visit_block"),
        ("pin_visit_If", "EvaluateVisitor.visit_If"),
        ("pin_visit_Return", "EvaluateVisitor.visit_Return"),
        ("pin_visit_show_error", "EvaluateVisitor.visit_show_error"),
    ]:
        out[name] = (f"{REL}: {qual}", pin_function(tree, qual, REL))
    stree = parse(repo, SIG)
    fn = find(stree, "Signature.check_call_with_bound_args", SIG)
    br = one_statement(
        fn,
        lambda n: isinstance(n, ast.If) and isinstance(n.test, ast.BoolOp) and "impl" in ast.dump(n.test)
        and any("evaluator" in ast.dump(o) for o in n.orelse),
        "`if self.impl is not None ... elif self.evaluator is not None` statement",
        SIG,
    )
    out["pin_evaluator_handoff"] = (f"{SIG}: Signature.check_call_with_bound_args, evaluator hand-off (varmap, positions, errors)", digest(br.orelse))
    return out


def translate(repo):
    tree = parse(repo, REL)
    return (
        "(* GENERATED by harness/translate/typeeval.py from pyanalyze/type_evaluation.py — do not edit. *)\n"
        "From Coq Require Import List Bool Arith.\nImport ListNotations.\nRequire Import PV.Eval.TypeEval.\n\n"
        "(* ConditionEvaluator.visit_Call: is_provided / is_positional / is_keyword *)\n"
        + translate_kinds(tree) + "\n(* ConditionEvaluator.visit_BoolOp: per-operand step and final result of `and` / `or` *)\n"
        + translate_boolop(tree) + "\n" + coq_pins(pins(repo))
    )


if __name__ == "__main__":
    import sys

    print(translate(sys.argv[1] if len(sys.argv) > 1 else "/repo"))
