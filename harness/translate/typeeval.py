"""Translator: pyanalyze/type_evaluation.py (+ the evaluator hand-off in signature.py)
-> coq/theories/Gen/TypeEvalGen.v  (C20).

1. The three argument-kind predicates of ConditionEvaluator.visit_Call
   (`match = position is not DEFAULT and ...`) are translated expression by
   expression into `gen_kind_match`; obligation `gen_kind_match_is_model`
   proves it equal to the hand-written `Eval.TypeEval.kind_match`.
2. The regions the rest of the model mirrors are pinned (see regions.py).
"""
import ast

from .regions import TranslateError, coq_pins, digest, find, one_statement, parse, pin_function

REL = "pyanalyze/type_evaluation.py"
SIG = "pyanalyze/signature.py"
MARK = {"DEFAULT": "PDefault", "UNKNOWN": "PUnknown", "ARGS": "PArgs", "KWARGS": "PKwargs"}
FN = {"is_provided": "KProvided", "is_positional": "KPositional", "is_keyword": "KKeyword"}


def _fail(node, why):
    raise TranslateError(f"{REL}:{getattr(node, 'lineno', '?')}: visit_Call: {why}: {ast.dump(node)[:160]}")


def pexpr(e):
    if isinstance(e, ast.BoolOp):
        op = " && " if isinstance(e.op, ast.And) else " || "
        return "(" + op.join(pexpr(v) for v in e.values) + ")"
    if isinstance(e, ast.UnaryOp) and isinstance(e.op, ast.Not):
        return f"(negb {pexpr(e.operand)})"
    if isinstance(e, ast.Compare) and len(e.ops) == 1 and isinstance(e.left, ast.Name) and e.left.id == "position":
        r = e.comparators[0]
        if isinstance(r, ast.Name) and r.id in MARK:
            if isinstance(e.ops[0], ast.Is):
                return f"(posn_eqb p {MARK[r.id]})"
            if isinstance(e.ops[0], ast.IsNot):
                return f"(negb (posn_eqb p {MARK[r.id]}))"
    if (isinstance(e, ast.Call) and isinstance(e.func, ast.Name) and e.func.id == "isinstance" and len(e.args) == 2
            and isinstance(e.args[0], ast.Name) and e.args[0].id == "position" and isinstance(e.args[1], ast.Name)
            and e.args[1].id in ("int", "str")):
        return f"(posn_eqb p {'PInt' if e.args[1].id == 'int' else 'PStr'})"
    _fail(e, "unsupported position test")


def translate_kinds(tree):
    fn = find(tree, "ConditionEvaluator.visit_Call", REL)
    found = {}
    for n in ast.walk(fn):
        if (isinstance(n, ast.If) and isinstance(n.test, ast.Compare) and isinstance(n.test.left, ast.Name) and n.test.left.id == "name"
                and len(n.test.ops) == 1 and isinstance(n.test.ops[0], ast.Eq) and isinstance(n.test.comparators[0], ast.Constant)
                and n.test.comparators[0].value in FN):
            which = n.test.comparators[0].value
            if len(n.body) != 1 or not (isinstance(n.body[0], ast.Assign) and isinstance(n.body[0].targets[0], ast.Name)
                                        and n.body[0].targets[0].id == "match"):
                _fail(n, f"branch for {which} must be a single `match = ...`")
            if which in found:
                _fail(n, f"two branches for {which}")
            found[which] = pexpr(n.body[0].value)
    if set(found) != set(FN):
        raise TranslateError(f"{REL}: visit_Call: branches found for {sorted(found)}, expected {sorted(FN)}")
    # what happens with `match`: true -> left_varmap={}, false -> right_varmap={}
    use = one_statement(fn, lambda n: isinstance(n, ast.If) and isinstance(n.test, ast.Name) and n.test.id == "match", "`if match:`", REL)
    d = ast.dump(use)
    if not ("left_varmap" in ast.dump(use.body[0]) and "right_varmap" in ast.dump(use.orelse[0]) and "right_varmap" not in ast.dump(use.body[0])):
        _fail(use, "`if match:` must return left_varmap={} and otherwise right_varmap={}")
    rows = "\n".join(f"  | {FN[k]} => {found[k]}" for k in FN)
    return (
        "Definition posn_eqb (a b : posn) : bool :=\n  match a, b with\n"
        "  | PInt, PInt | PStr, PStr | PDefault, PDefault | PArgs, PArgs | PKwargs, PKwargs | PUnknown, PUnknown => true\n"
        "  | _, _ => false\n  end.\n\n"
        "Definition gen_kind_match (f : kindfn) (p : posn) : bool :=\n  match f with\n" + rows + "\n  end.\n"
    )


def pins(repo):
    tree = parse(repo, REL)
    out = {}
    for name, qual in [
        ("pin_visit_BoolOp", "ConditionEvaluator.visit_BoolOp"),
        ("pin_visit_is_of_type", "ConditionEvaluator.visit_is_of_type"),
        ("pin_visit_UnaryOp", "ConditionEvaluator.visit_UnaryOp"),
        ("pin_visit_Compare", "ConditionEvaluator.visit_Compare"),
        ("pin_reverse", "ConditionReturn.reverse"),
        ("pin_decompose_union", "decompose_union"),
        ("pin_can_assign_maybe_exclude_any", "can_assign_maybe_exclude_any"),
        ("pin_unite_varmaps", "unite_varmaps"),
        ("pin_unite_with_remaining", "_unite_with_remaining"),
        ("pin_narrow_variables", "EvalContext.narrow_variables"),
        ("pin_combined_make", "CombinedReturn.make"),
        ("pin_evaluate", "Evaluator.evaluate"),
        ("pin_evaluate_ret", "EvaluateVisitor._evaluate_ret"),
        ("pin_visit_block", "EvaluateVisitor.visit_block"),
        ("pin_visit_If", "EvaluateVisitor.visit_If"),
        ("pin_visit_Return", "EvaluateVisitor.visit_Return"),
        ("pin_visit_show_error", "EvaluateVisitor.visit_show_error"),
    ]:
        out[name] = (f"{REL}: {qual}", pin_function(tree, qual, REL))
    stree = parse(repo, SIG)
    fn = find(stree, "Signature.check_call_with_bound_args", SIG)
    br = one_statement(
        fn,
        lambda n: isinstance(n, ast.If) and isinstance(n.test, ast.BoolOp) and "impl" in ast.dump(n.test)
        and any("evaluator" in ast.dump(o) for o in n.orelse),
        "`if self.impl is not None ... elif self.evaluator is not None` statement",
        SIG,
    )
    out["pin_evaluator_handoff"] = (f"{SIG}: Signature.check_call_with_bound_args, evaluator hand-off (varmap, positions, errors)", digest(br.orelse))
    return out


def translate(repo):
    tree = parse(repo, REL)
    return (
        "(* GENERATED by harness/translate/typeeval.py from pyanalyze/type_evaluation.py — do not edit. *)\n"
        "From Coq Require Import List Bool Arith.\nImport ListNotations.\nRequire Import PV.Eval.TypeEval.\n\n"
        "(* ConditionEvaluator.visit_Call: is_provided / is_positional / is_keyword *)\n"
        + translate_kinds(tree) + "\n" + coq_pins(pins(repo))
    )


if __name__ == "__main__":
    import sys

    print(translate(sys.argv[1] if len(sys.argv) > 1 else "/repo"))
