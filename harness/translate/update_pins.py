"""Maintenance helper (never run by a check): after a pinned region was re-read and the model updated,
rewrite the digests in Proofs/OverloadPins.v / Proofs/TypeEvalPins.v from the current source.
usage: python -m translate.update_pins <repo> [C08|C20]"""
import re
import sys
from pathlib import Path

from . import overload, regions, typeeval

ROOT = Path(__file__).resolve().parent.parent.parent / "coq" / "theories" / "Proofs"


def update(path, pins):
    txt = path.read_text()
    for name, (_, dg) in pins.items():
        txt, n = re.subn(r'(Lemma %s_ok : %s = ")[0-9a-f]+(")' % (name, name), r"\g<1>%s\g<2>" % dg, txt)
        if n != 1:
            print("no lemma for", name)
    path.write_text(txt)


if __name__ == "__main__":
    repo = sys.argv[1]
    which = sys.argv[2:] or ["C08", "C20"]
    if "C08" in which:
        update(ROOT / "OverloadPins.v", overload.pins(regions.parse(repo, overload.REL)))
    if "C20" in which:
        update(ROOT / "TypeEvalPins.v", typeeval.pins(repo))
