"""The fixed class / object universe shared by the Core-value checks (C14, C03, C04).

Imported (never copied) by generators and encoders.  Class codes below 40 are the
builtin classes and ABCs (they match coq/theories/Core/Obj.v); user classes start
at 40.  The class table handed to Coq (Gen/ClassTable.v) is dumped from the
running implementation by harness/classtable.py using these codes.
"""

import collections.abc
import enum
from typing import NewType, Optional, TypeVar

try:  # typing_extensions is a pyanalyze dependency
    from typing_extensions import NotRequired, ReadOnly, Required, TypedDict
except ImportError:  # pragma: no cover
    from typing import NotRequired, ReadOnly, Required, TypedDict


class A:
    pass


class B(A):
    pass


class C:
    pass


class Falsy(A):
    def __bool__(self):
        return False


class WithLen:
    def __len__(self):
        return 0


class E(enum.Enum):
    a = 1
    b = 2


class IE(enum.IntEnum):
    x = 1
    y = 2


# user subclasses of the builtins in the promotion chain and of str / bytes / tuple / list / dict
class ISub(int):
    pass


class FSub(float):
    pass


class CSub(complex):
    pass


class FE(float, enum.Enum):
    half = 0.5
    one = 1.0


class SSub(str):
    pass


class BSub(bytes):
    pass


class TSub(tuple):
    pass


class LSub(list):
    pass


class DSub(dict):
    pass


class SE(str, enum.Enum):
    a = "a"


NT = NewType("NT", int)
NT2 = NewType("NT2", int)


class TD1(TypedDict):
    a: int


class TD2(TypedDict):
    a: int
    b: NotRequired[str]


class TD3(TypedDict):
    a: Optional[int]
    b: NotRequired[Optional[str]]


class TD4(TypedDict, total=False):
    a: list[int]
    c: tuple[int, str]


# TypedDict inheritance with mixed totality in both directions, qualifiers, functional syntax,
# closed / extra_items (all converted through type_from_runtime by the checks)
class TDBase(TypedDict):
    i: int


class TDChild(TDBase, total=False):  # non-total child of a total base: `i` stays required
    l: str


class TDGrand(TDChild):  # total grandchild
    g: bytes


class TDOptBase(TypedDict, total=False):
    o: int


class TDReqChild(TDOptBase):  # total child of a non-total base: `o` stays optional
    r: str


class TDQ(TypedDict, total=False):
    a: Required[int]
    b: ReadOnly[str]
    c: NotRequired[None]


TDF = TypedDict("TDF", {"a": int, "b": NotRequired[str]})
TDFopt = TypedDict("TDFopt", {"a": int, "b": Required[str]}, total=False)


class TDClosed(TypedDict, closed=True):
    a: int


class TDExtra(TypedDict, extra_items=str):
    a: int


class TDExtraChild(TDExtra, total=False):
    b: int


TYPEDDICTS = ["TD1", "TD2", "TD3", "TD4", "TDBase", "TDChild", "TDGrand", "TDOptBase", "TDReqChild", "TDQ", "TDF", "TDFopt",
              "TDClosed", "TDExtra", "TDExtraChild"]

T1 = TypeVar("T1")
T2 = TypeVar("T2")
T3 = TypeVar("T3")
TYPEVARS = [T1, T2, T3]

CLASS_CODES = {
    object: 0,
    int: 1,
    bool: 2,
    float: 3,
    complex: 4,
    str: 5,
    bytes: 6,
    tuple: 7,
    list: 8,
    set: 9,
    frozenset: 10,
    dict: 11,
    type: 12,
    type(None): 13,
    range: 14,
    collections.abc.Iterable: 20,
    collections.abc.Collection: 21,
    collections.abc.Sequence: 22,
    collections.abc.MutableSequence: 23,
    collections.abc.Mapping: 24,
    collections.abc.MutableMapping: 25,
    collections.abc.Set: 26,
    collections.abc.Hashable: 27,
    collections.abc.Sized: 28,
    collections.abc.Callable: 29,
    collections.abc.Container: 30,
    collections.abc.Reversible: 31,
    collections.abc.MutableSet: 32,
    A: 40,
    B: 41,
    C: 42,
    Falsy: 43,
    WithLen: 44,
    E: 45,
    IE: 46,
    enum.Enum: 47,
    enum.IntEnum: 48,
    ISub: 50,
    FSub: 51,
    CSub: 52,
    FE: 53,
    SSub: 54,
    BSub: 55,
    TSub: 56,
    LSub: 57,
    DSub: 58,
    SE: 59,
}
# a representative instance per class that has instances (for the dumped nominal-for-literals table)
REPRESENTATIVES = {ISub: ISub(3), FSub: FSub(0.5), CSub: CSub(1j), FE: FE.half, SSub: SSub("a"), BSub: BSub(b"a"),
                   TSub: TSub((1,)), LSub: LSub([1]), DSub: DSub({1: 1}), SE: SE.a}
CODE_CLASSES = {v: k for k, v in CLASS_CODES.items()}
NEWTYPES = {NT: 1, NT2: 2}

# fixed instances of the user classes (identity = index)
INSTANCES = {
    A: [A(), A()],
    B: [B(), B()],
    C: [C()],
    Falsy: [Falsy()],
    WithLen: [WithLen()],
}
ENUM_MEMBERS = {E: [E.a, E.b]}

SCALARS = [None, True, False, 0, 1, -1, 2, 255, 256, 300, 0.0, 1.0, 1.5, -0.5, 1j, 1 + 0j, "", "a", "ab", b"", b"a",
           IE.x, IE.y, E.a, E.b]
