(* C05 driver.  One case per line, integers only:
     B <sig> | <rawargs>        model: preprocess + bind      (repaired code)
     L <sig> | <rawargs>        model: preprocess + bind_legacy
     P <sig> | <npos> | <kws>   spec : py_bind_full
     V <sig>                    valid_sig
   <sig>     = params separated by ',' : "name kind default"  kind 0..4 = PO POK VP KO VK
   <rawargs> = args separated by ',' : "p" | "k n" | "sl len" | "su" | "kl n1 n2 .." | "ku"
   Output: "ERR" or "OK name:pos[:payload];..." *)
open C05model
let rec pos_of_int n = if n = 1 then XH else if n land 1 = 0 then XO (pos_of_int (n / 2)) else XI (pos_of_int (n / 2))
let n_of_int n = if n = 0 then N0 else Npos (pos_of_int n)
let rec int_of_pos = function XH -> 1 | XO p -> 2 * int_of_pos p | XI p -> 2 * int_of_pos p + 1
let int_of_n = function N0 -> 0 | Npos p -> int_of_pos p
let rec nat_of_int n = if n <= 0 then O else S (nat_of_int (n - 1))
let rec int_of_nat = function O -> 0 | S n -> 1 + int_of_nat n
let words s = List.filter (fun w -> w <> "") (String.split_on_char ' ' s)
let items s = List.filter (fun w -> String.trim w <> "") (String.split_on_char ',' s)
let kind_of = function 0 -> PO | 1 -> POK | 2 -> VP | 3 -> KO | 4 -> VK | _ -> failwith "kind"
let parse_sig s =
  List.map (fun it -> match words it with
    | [n; k; d] -> { pname = n_of_int (int_of_string n); pkind = kind_of (int_of_string k); pdefault = (d = "1") }
    | _ -> failwith "param") (items s)
let parse_raw s =
  List.map (fun it -> match words it with
    | ["p"] -> RPos
    | ["k"; n] -> RKw (n_of_int (int_of_string n))
    | ["sl"; l] -> RStarLit (nat_of_int (int_of_string l))
    | ["su"] -> RStarUnknown
    | "kl" :: ns -> RKwLit (List.map (fun n -> n_of_int (int_of_string n)) ns)
    | ["ku"] -> RKwUnknown
    | _ -> failwith "rawarg") (items s)
(* raw arguments with unions:  "ux n1 n2 / n3 / n4 n5"  = a union of closed mappings *)
let parse_raw_u s =
  List.map (fun it ->
    let it = String.trim it in
    if String.length it >= 2 && String.sub it 0 2 = "ux" then
      let body = String.sub it 2 (String.length it - 2) in
      UKwUnion (List.map (fun alt -> List.map (fun n -> n_of_int (int_of_string n)) (words alt)) (String.split_on_char '/' body))
    else UPlain (List.hd (parse_raw it))) (items s)
let names l = String.concat "." (List.map (fun n -> string_of_int (int_of_n n)) l)
let b2s b = if b then "1" else "0"
let show_pos = function
  | Pos i -> "P" ^ string_of_int (int_of_nat i) | Kw n -> "K" ^ string_of_int (int_of_n n)
  | Default -> "D" | Args -> "A" | Kwargs -> "W" | Unknown -> "U"
let show_payload = function
  | One -> "" | Tuple (f, c, st) -> Printf.sprintf ":T%d+%d+%s" (int_of_nat f) (int_of_nat c) (b2s st)
  | Dict (ns, st) -> Printf.sprintf ":M%s+%s" (names ns) (b2s st)
let show_bound l = "OK " ^ String.concat ";" (List.map (fun ((n, p), pl) -> string_of_int (int_of_n n) ^ ":" ^ show_pos p ^ show_payload pl) l)
let show_src = function
  | SPos i -> "P" ^ string_of_int (int_of_nat i) | SKw n -> "K" ^ string_of_int (int_of_n n) | SDefault -> "D"
  | SVarPos (f, c) -> Printf.sprintf "T%d+%d" (int_of_nat f) (int_of_nat c) | SVarKw ns -> "M" ^ names ns
let show_full l = "OK " ^ String.concat ";" (List.map (fun (n, s) -> string_of_int (int_of_n n) ^ ":" ^ show_src s) l)
let () =
  try
    while true do
      let line = input_line stdin in
      let cmd = line.[0] in
      let parts = Array.of_list (String.split_on_char '|' (String.sub line 1 (String.length line - 1))) in
      let out =
        try
          (match cmd with
           | 'B' | 'L' ->
             let s = parse_sig parts.(0) in
             (match preprocess (parse_raw parts.(1)) with
              | None -> "ERR pre"
              | Some a -> (match (if cmd = 'B' then bind s a else bind_legacy s a) with None -> "ERR" | Some b -> show_bound b))
           | 'U' ->
             let s = parse_sig parts.(0) in
             (match preprocess_u (parse_raw_u parts.(1)) with
              | None -> "ERR pre"
              | Some a -> (match bind s a with None -> "ERR" | Some b -> show_bound b))
           | 'P' ->
             let s = parse_sig parts.(0) in
             let npos = nat_of_int (int_of_string (String.trim parts.(1))) in
             let kws = List.map (fun w -> n_of_int (int_of_string w)) (words parts.(2)) in
             (match py_bind_full s npos kws with None -> "ERR" | Some l -> show_full l)
           | 'V' -> if valid_sig (parse_sig parts.(0)) then "1" else "0"
           | _ -> "BAD")
        with Failure m -> "BAD " ^ m
      in print_endline out
    done
  with End_of_file -> ()
