(* C07 driver.  One case per line, integers only:
     C <sig_e> | <sig_a>          model: sca -> "ERR" | "OK t:m;t:m;..." then " G0|G1" (guard double_fill)
     P <sig> | <npos> | <kws>     spec : py_bind -> 0/1
   <sig> = params separated by ',' : "name kind default"  kind 0..4 = PO POK VP KO VK *)
open C07model
let rec pos_of_int n = if n = 1 then XH else if n land 1 = 0 then XO (pos_of_int (n / 2)) else XI (pos_of_int (n / 2))
let n_of_int n = if n = 0 then N0 else Npos (pos_of_int n)
let rec int_of_pos = function XH -> 1 | XO p -> 2 * int_of_pos p | XI p -> 2 * int_of_pos p + 1
let int_of_n = function N0 -> 0 | Npos p -> int_of_pos p
let rec nat_of_int n = if n <= 0 then O else S (nat_of_int (n - 1))
let words s = List.filter (fun w -> w <> "") (String.split_on_char ' ' s)
let items s = List.filter (fun w -> String.trim w <> "") (String.split_on_char ',' s)
let kind_of = function 0 -> PO | 1 -> POK | 2 -> VP | 3 -> KO | 4 -> VK | _ -> failwith "kind"
let parse_sig s =
  List.map (fun it -> match words it with
    | [n; k; d] -> { pname = n_of_int (int_of_string n); pkind = kind_of (int_of_string k); pdefault = (d = "1") }
    | _ -> failwith "param") (items s)
let () =
  try
    while true do
      let line = input_line stdin in
      let cmd = line.[0] in
      let parts = Array.of_list (String.split_on_char '|' (String.sub line 1 (String.length line - 1))) in
      let out =
        try
          (match cmd with
           | 'C' ->
             let e = parse_sig parts.(0) and a = parse_sig parts.(1) in
             let g = if double_fill e a then " G1" else " G0" in
             (match sca e a with
              | None -> "ERR" ^ g
              | Some obs -> "OK " ^ String.concat ";" (List.map (fun (t, m) -> string_of_int (int_of_n t) ^ ":" ^ string_of_int (int_of_n m)) obs) ^ g)
           | 'P' ->
             let s = parse_sig parts.(0) in
             let npos = nat_of_int (int_of_string (String.trim parts.(1))) in
             let kws = List.map (fun w -> n_of_int (int_of_string w)) (words parts.(2)) in
             if py_bind s npos kws then "1" else "0"
           | _ -> "BAD")
        with Failure m -> "BAD " ^ m
      in print_endline out
    done
  with End_of_file -> ()
