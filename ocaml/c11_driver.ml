(* C11 driver: one case per input line (space separated integers), one result line per case.
   E k c1..ck nl (len ch..)*nl nr (node code line col obey)*nr   -> emitted diagnostics "code:line:col" ...
   F len ch.. code                                              -> the ten character-level features
   S n                                                          -> is_space n *)
open C11model
let rec pos_of_int n = if n = 1 then XH else if n land 1 = 0 then XO (pos_of_int (n / 2)) else XI (pos_of_int (n / 2))
let n_of_int n = if n = 0 then N0 else Npos (pos_of_int n)
let rec int_of_pos = function XH -> 1 | XO p -> 2 * int_of_pos p | XI p -> 2 * int_of_pos p + 1
let int_of_n = function N0 -> 0 | Npos p -> int_of_pos p
let rec nat_of_int n = if n = 0 then O else S (nat_of_int (n - 1))
let rec int_of_nat = function O -> 0 | S n -> 1 + int_of_nat n
let b x = if x then "1" else "0"
let () =
  try
    while true do
      let line = input_line stdin in
      let toks = Array.of_list (List.filter (fun s -> s <> "") (String.split_on_char ' ' line)) in
      let pos = ref 1 in
      let next () = let v = int_of_string toks.(!pos) in incr pos; v in
      let rec take n f = if n = 0 then [] else let x = f () in x :: take (n - 1) f in
      let read_line () = let len = next () in take len (fun () -> n_of_int (next ())) in
      (match toks.(0) with
       | "E" ->
         let k = next () in
         let enabled = take k (fun () -> n_of_int (next ())) in
         let nl = next () in
         let file = take nl read_line in
         let nr = next () in
         let raw = take nr (fun () ->
             let node = next () in let code = next () in let ln = next () in let col = next () in let obey = next () in
             { d_node = n_of_int node; d_code = n_of_int code;
               d_line = (if ln = 0 then None else Some (nat_of_int ln));
               d_col = n_of_int col; d_obey = (obey <> 0) }) in
         let st c = mem_N c enabled in
         let out = emit_i st file raw in
         let us = used_i st file raw in
         print_endline
           (String.concat " " (List.map (fun d ->
                Printf.sprintf "%d:%d:%d" (int_of_n d.d_code)
                  (match d.d_line with None -> 0 | Some n -> int_of_nat n) (int_of_n d.d_col)) out)
            ^ " | " ^ String.concat " " (List.map (fun i -> string_of_int (int_of_nat i)) us))
       | "F" ->
         let l = read_line () in
         let c = n_of_int (next ()) in
         let (((((((((a1, a2), a3), a4), a5), a6), a7), a8), a9), a10) = features_i l c in
         print_endline (String.concat " " [b a1; b a2; b a3; b a4; b a5; b a6; b a7;
                                           string_of_int (int_of_nat a8); string_of_int (int_of_nat a9);
                                           String.concat "," (List.map (fun n -> string_of_int (int_of_n n)) a10)])
       | "S" -> print_endline (b (is_space (n_of_int (next ()))))
       | _ -> print_endline "?")
    done
  with End_of_file -> ()
