(* C16 driver: one case per input line (space separated integers), one result line per case.
   I limit k c1..ck nl (len ch..)*nl nr (node code line col obey)*nr
      -> "g b p q o | n | file_1 ; file_2 ; ..."   guard bits, number of steps taken (stops at a fixpoint or
         at `limit`), then the file after each step: lines separated by '/', characters by ','
   A nd d1..dnd hasadd na (len ch..)*na nl (len ch..)*nl      -> apply_changes [Replacement(dels, adds)] lines *)
open C16model
let rec pos_of_int n = if n = 1 then XH else if n land 1 = 0 then XO (pos_of_int (n / 2)) else XI (pos_of_int (n / 2))
let n_of_int n = if n = 0 then N0 else Npos (pos_of_int n)
let rec int_of_pos = function XH -> 1 | XO p -> 2 * int_of_pos p | XI p -> 2 * int_of_pos p + 1
let int_of_n = function N0 -> 0 | Npos p -> int_of_pos p
let rec nat_of_int n = if n = 0 then O else S (nat_of_int (n - 1))
let b x = if x then "1" else "0"
let show_file f =
  String.concat "/" (List.map (fun l -> String.concat "," (List.map (fun c -> string_of_int (int_of_n c)) l)) f)
let () =
  try
    while true do
      let line = input_line stdin in
      let toks = Array.of_list (List.filter (fun s -> s <> "") (String.split_on_char ' ' line)) in
      let pos = ref 1 in
      let next () = let v = int_of_string toks.(!pos) in incr pos; v in
      let rec take n f = if n = 0 then [] else let x = f () in x :: take (n - 1) f in
      let read_line () = let len = next () in take len (fun () -> n_of_int (next ())) in
      (match toks.(0) with
       | "I" ->
         let limit = next () in
         let k = next () in
         let enabled = take k (fun () -> n_of_int (next ())) in
         let nl = next () in
         let file = take nl read_line in
         let nr = next () in
         let raw = take nr (fun () ->
             let node = next () in let code = next () in let ln = next () in let col = next () in let obey = next () in
             { d_node = n_of_int node; d_code = n_of_int code;
               d_line = (if ln = 0 then None else Some (nat_of_int ln));
               d_col = n_of_int col; d_obey = (obey <> 0) }) in
         let st c = mem_N c enabled in
         let (g, bo) = clauses_i st file raw in let p = true and q = true and o = true in
         let rec go n f r acc =
           if n = 0 then List.rev acc
           else match fix_step_i st f r with
             | None -> List.rev acc
             | Some (f', r') -> go (n - 1) f' r' (f' :: acc) in
         let files = go limit file raw [] in
         print_endline (String.concat " " [b g; b bo; b p; b q; b o] ^ " | " ^ string_of_int (List.length files) ^ " | "
                        ^ String.concat " ; " (List.map show_file files))
       | "A" ->
         let nd = next () in
         let dels = take nd (fun () -> nat_of_int (next ())) in
         let hasadd = next () in
         let na = next () in
         let adds = take na read_line in
         let nl = next () in
         let file = take nl read_line in
         let r = { r_del = dels; r_add = (if hasadd <> 0 then Some adds else None) } in
         print_endline (show_file (apply_i [r] file))
       | "R" ->
         let first = next () in
         let last0 = next () in
         let nl = next () in
         let file = take nl read_line in
         let rec int_of_nat = function O -> 0 | S n -> 1 + int_of_nat n in
         print_endline (String.concat " " (List.map (fun n -> string_of_int (int_of_nat n)) (line_range_i file (nat_of_int first) (nat_of_int last0))))
       | _ -> print_endline "?")
    done
  with End_of_file -> ()
