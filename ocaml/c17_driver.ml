(* C17 driver: one case per line (tokens), one canonical result line per case.
   P <is_bytes> <n> <code>*n <ARGS>
     ARGS := T <k> OBJ*k | D <k> (KEY OBJ)*k | X OBJ
     OBJ  := I <dec> | B <0/1> | F <0/1> | S <n> code*n | Y <n> code*n | O <0/1>
     KEY  := S <n> code*n | Y <n> code*n | O                                      *)
open C17model

let rec pos_of_int n = if n = 1 then XH else if n land 1 = 0 then XO (pos_of_int (n / 2)) else XI (pos_of_int (n / 2))
let n_of_int n = if n = 0 then N0 else Npos (pos_of_int n)
let rec int_of_pos = function XH -> 1 | XO p -> 2 * int_of_pos p | XI p -> 2 * int_of_pos p + 1
let int_of_n = function N0 -> 0 | Npos p -> int_of_pos p
let rec int_of_nat = function O -> 0 | S n -> 1 + int_of_nat n

let digits_of_string s =
  let l = ref [] in
  String.iter (fun c -> if c >= '0' && c <= '9' then l := n_of_int (Char.code c - 48) :: !l) s;
  List.rev !l
let z_of_string s =
  let neg = String.length s > 0 && s.[0] = '-' in
  z_of_digits neg (digits_of_string s)
let string_of_n n = String.concat "" (List.map (fun d -> string_of_int (int_of_n d)) (n_digits n))

let toks = ref [||]
let pos = ref 0
let next () = let t = !toks.(!pos) in incr pos; t
let next_int () = int_of_string (next ())
let codes () = let n = next_int () in List.init n (fun _ -> n_of_int (next_int ()))

let obj () =
  match next () with
  | "I" -> OInt (z_of_string (next ()))
  | "B" -> OBool (next_int () = 1)
  | "F" -> OFloat (next_int () = 1)
  | "S" -> OStr (codes ())
  | "Y" -> OBytes (codes ())
  | "O" -> OOther (next_int () = 1)
  | t -> failwith ("bad obj " ^ t)
let dkey () =
  match next () with
  | "S" -> KStr (codes ())
  | "Y" -> KBytes (codes ())
  | "O" -> KOther
  | t -> failwith ("bad key " ^ t)
let args () =
  match next () with
  | "T" -> let k = next_int () in ATuple (List.init k (fun _ -> obj ()))
  | "D" -> let k = next_int () in ADict (List.init k (fun _ -> let key = dkey () in let v = obj () in (key, v)))
  | "X" -> AScalar (obj ())
  | t -> failwith ("bad args " ^ t)

let str_codes l = if l = [] then "e" else String.concat "." (List.map (fun c -> string_of_int (int_of_n c)) l)
let str_opt_codes = function None -> "-" | Some l -> str_codes l
let str_fw = function FNone -> "-" | FStar -> "*" | FNum n -> string_of_n n
let str_spec cs =
  String.concat "," [string_of_int (int_of_n cs.c_type); str_opt_codes cs.c_key; str_opt_codes cs.c_flags;
                     str_fw cs.c_width; str_fw cs.c_prec; (match cs.c_len with None -> "-" | Some c -> string_of_int (int_of_n c))]
let str_specs l = if l = [] then "none" else String.concat ";" (List.map str_spec l)
let str_lint = function LPctOptions -> "LPctOptions" | LBOnText -> "LBOnText" | LCombine -> "LCombine" | LBadPiece -> "LBadPiece"
let str_acc = function
  | ENoSpecifiers -> "ENoSpecifiers" | ENeedMapping -> "ENeedMapping" | EMissingKeys -> "EMissingKeys"
  | ETooFew -> "ETooFew" | ETooMany -> "ETooMany" | EInteger -> "EInteger" | ENumeric -> "ENumeric"
  | ECRange -> "ECRange" | ECLen -> "ECLen" | ECType -> "ECType" | EBytesOnly -> "EBytesOnly"
  | EStar -> "EStar" | EPct -> "EPct" | EUnhandled -> "EUnhandled"
let str_list f l = if l = [] then "none" else String.concat "," (List.map f l)

let percent () =
  let is_bytes = next_int () = 1 in
  let t = codes () in
  let a = args () in
  let pa =
    match pa_scan is_bytes t with
    | None -> "FUEL"
    | Some (specs, pieces) ->
      let le = match pa_check_chars is_bytes t a with
        | None -> "FUEL"
        | Some (l, e) -> "lint=" ^ str_list str_lint l ^ " acc=" ^ str_list str_acc e in
      "specs=" ^ str_specs specs ^ " pieces=" ^ String.concat "|" (List.map str_codes pieces) ^ " " ^ le in
  let py =
    match py_scan is_bytes t with
    | PSFuel -> "FUEL"
    | PSValueError -> "pyscan=VE pyraises=1"
    | PSOk specs -> "pyscan=" ^ str_specs specs ^ " pyraises=" ^ (if py_raises is_bytes specs a then "1" else "0") in
  print_endline (pa ^ " " ^ py)

(* F <n> code*n <nargs> <nkw> (<n> code*n)*nkw *)
let str_argname = function ANone -> "auto" | ANum n -> "#" ^ string_of_n n | AName s -> "n" ^ str_codes s
let str_field fd =
  str_argname fd.f_name ^ "/" ^
  String.concat "" (List.map (fun (i, s) -> (if i then "[" else ".") ^ str_codes s) fd.f_path) ^ "/" ^
  (match fd.f_conv with None -> "-" | Some c -> string_of_int (int_of_n c))
let str_fields l = if l = [] then "none" else String.concat ";" (List.map str_field l)
let str_perr = function
  | PExpectedClose -> "PExpectedClose" | PSingleClose -> "PSingleClose" | PExpectedOneOfAll -> "PExpectedOneOfAll"
  | PExpectedOneOfTwo -> "PExpectedOneOfTwo" | PInvalidAttribute -> "PInvalidAttribute"
  | PExpectedBracket -> "PExpectedBracket" | PUnknownConversion -> "PUnknownConversion" | PUnexpectedOpen -> "PUnexpectedOpen"
let str_ferr = function
  | FTooFew -> "FTooFew" | FOutOfRange -> "FOutOfRange" | FNotGiven -> "FNotGiven"
  | FUnusedNumbered -> "FUnusedNumbered" | FUnusedNamed -> "FUnusedNamed" | FMix -> "FMix"
let rec list_init_seq k f = if k <= 0 then [] else let x = f () in x :: list_init_seq (k - 1) f

let rec fobj () =
  match next () with
  | "I" -> FInt (z_of_string (next ()))
  | "B" -> FBool (next_int () = 1)
  | "F" -> FFloat
  | "C" -> FComplex
  | "S" -> FStr (codes ())
  | "Y" -> FBytes (codes ())
  | "N" -> FNoneObj
  | "U" -> FUnknown
  | "Q" -> let is_list = next_int () = 1 in let k = next_int () in FSeq (is_list, list_init_seq k fobj)
  | "D" -> let k = next_int () in
    FDict (list_init_seq k (fun () ->
      let key = (match next () with
                 | "S" -> FKStr (codes ())
                 | "I" -> FKInt (z_of_string (next ()))
                 | t -> failwith ("bad fkey " ^ t)) in
      let v = fobj () in (key, v)))
  | t -> failwith ("bad fobj " ^ t)

(* F <n> code*n <nargs> FOBJ*nargs <nkw> (<n> code*n FOBJ)*nkw *)
let format () =
  let t = codes () in
  let na = next_int () in
  let pos = list_init_seq na fobj in
  let nkw = next_int () in
  let kwv = list_init_seq nkw (fun () -> let k = codes () in let v = fobj () in (k, v)) in
  let nargs = n_of_int na in
  let kw = List.map fst kwv in
  let pa =
    match pa_parse t with
    | None -> "FUEL"
    | Some (fs, errs) ->
      "fields=" ^ str_fields fs ^ " errs=" ^
      (if errs = [] then "none" else String.concat "," (List.map (fun (p, e) -> string_of_n p ^ ":" ^ str_perr e) errs)) ^
      " check=" ^
      (match pa_format_check t nargs kw with
       | None -> "FUEL"
       | Some (RParse (p, e)) -> "parse:" ^ str_perr e
       | Some (RFields l) -> str_list str_ferr l) in
  let py =
    (match py_parse t with
     | PYFuel -> "pyparse=FUEL"
     | PYRaise -> "pyparse=RAISE mix=0"
     | PYOk fs -> "pyparse=" ^ str_fields fs ^ " mix=" ^ (if mix_clause fs then "1" else "0")) ^
    " verdict=" ^
    (match py_format_verdict t nargs kw with
     | VRaises -> "raises" | VFine -> "fine" | VUndecided -> "undecided" | VFuel -> "FUEL") ^
    (match py_tree t with
     | TOk items -> let fs = tree_fields items in
       " nopath=" ^ (if List.for_all tfield_no_path fs then "1" else "0") ^
       " plain=" ^ (if List.for_all tfield_plain fs then "1" else "0")
     | _ -> " nopath=? plain=?") ^
    " full=" ^
    (match py_format_full t { fa_pos = pos; fa_kw = kwv } with
     | FVRaises -> "raises" | FVFine -> "fine" | FVUndecided -> "undecided" | FVFuel -> "FUEL") in
  print_endline (pa ^ " " ^ py)

(* Y <is_bytes> <n> code*n TARGS
   TARGS := T <n> (<k> AVAL*k)*n | O | S AVAL ;  AVAL := K OBJ | A <0..6> *)
let aval () =
  match next () with
  | "K" -> AK (obj ())
  | "A" -> AT (match next_int () with 0 -> TyInt | 1 -> TyBool | 2 -> TyFloat | 3 -> TyStr | 4 -> TyBytes | 5 -> TyOther | _ -> TyAny)
  | t -> failwith ("bad aval " ^ t)
let typed () =
  let is_bytes = next_int () = 1 in
  let t = codes () in
  let ta = (match next () with
    | "T" -> let n = next_int () in TTuple (list_init_seq n (fun () -> let k = next_int () in list_init_seq k aval))
    | "O" -> TOpaque
    | "S" -> TScalar (aval ())
    | x -> failwith ("bad targs " ^ x)) in
  match pa_scan is_bytes t with
  | None -> print_endline "FUEL"
  | Some (specs, pieces) ->
    print_endline ("specs=" ^ str_specs specs ^ " acc=" ^ str_list str_acc (accept_tuple_typed is_bytes specs ta))

let () =
  try
    while true do
      let line = input_line stdin in
      toks := Array.of_list (List.filter (fun s -> s <> "") (String.split_on_char ' ' line));
      pos := 0;
      (try
        match next () with
        | "P" -> percent ()
        | "F" -> format ()
        | "Y" -> typed ()
        | t -> print_endline ("ERR unknown mode " ^ t)
      with e -> print_endline ("ERR " ^ Printexc.to_string e))
    done
  with End_of_file -> ()
