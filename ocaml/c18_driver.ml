(* smoke-test driver: evaluates a fixed configuration; used by tools/selftest *)
open C18model
let rec z_of_int n = if n = 0 then Z0 else if n > 0 then Zpos (pos_of_int n) else Zneg (pos_of_int (-n))
and pos_of_int n = if n = 1 then XH else if n land 1 = 0 then XO (pos_of_int (n / 2)) else XI (pos_of_int (n / 2))
let rec int_of_pos = function XH -> 1 | XO p -> 2 * int_of_pos p | XI p -> 2 * int_of_pos p + 1
let int_of_z = function Z0 -> 0 | Zpos p -> int_of_pos p | Zneg p -> - (int_of_pos p)
let () =
  try
    while true do
      let line = input_line stdin in
      let v = int_of_string line in
      let files = [[ESet (z_of_int v)]] in
      (match effective false files [] Z0 [] with
       | Some (Some z) -> print_endline (string_of_int (int_of_z z))
       | _ -> print_endline "ERR")
    done
  with End_of_file -> ()
