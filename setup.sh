#!/bin/bash
# Build the whole Coq development once (offline). Checks rebuild incrementally.
set -e
cd "$(dirname "$0")"
export PYTHONPATH=/repo PYTHONHASHSEED=0 PYTHONDONTWRITEBYTECODE=1
/venv/bin/python harness/setup_build.py
