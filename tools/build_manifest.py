#!/usr/bin/env python3
"""Assemble MANIFEST.json from manifest.d/*.json and known_findings.json from known_findings.d/*.json."""
import glob, json
props = [json.loads(l)['id'] for l in open('/verif/properties.jsonl')]
checks = [json.load(open(f)) for f in sorted(glob.glob('/verif/manifest.d/C*.json'))]
claimed = [c['property_id'] for c in checks]
na_reasons = {}
try:
    na_reasons = json.load(open('/verif/manifest.d/not_applicable.json'))
except FileNotFoundError:
    pass
man = {
 "version": 1,
 "setup_cmd": "cd /verif && ./setup.sh",
 "hooks": {"guard": "PYANALYZE_VERIF", "enable": "no hooks are needed: every observation point is reachable from the public Python API", "baseline_off_cmd": "cd /repo && /venv/bin/python -m pytest -ra -q -p no:cacheprovider --timeout=900 --continue-on-collection-errors", "source_commits": [], "add_only": True},
 "engines": [{"name": "coq-proof+correspondence", "path": "/verif/check", "serves_properties": claimed, "kind_free_text": "Coq 8.16.1 theorems over an executable Gallina model (partly regenerated from source by translators), tied to the code by a differential correspondence check and a direct property oracle"}],
 "checks": checks,
 "notes": "See DESIGN.md. Repairs of genuine defects in /repo are 'fix:' commits listed in known_findings.json (fixed entries); unrepaired defects are known findings there.",
 "not_applicable": [{"property_id": p, "reason": na_reasons.get(p, "check not built yet (work in progress; DESIGN.md section 5 has the plan)")} for p in props if p not in claimed],
}
json.dump(man, open('/verif/MANIFEST.json', 'w'), indent=1)
kf = {"findings": [], "fixed": []}
for f in sorted(glob.glob('/verif/known_findings.d/*.json')):
    d = json.load(open(f))
    kf["findings"] += d.get("findings", [])
    kf["fixed"] += d.get("fixed", [])
json.dump(kf, open('/verif/known_findings.json', 'w'), indent=1)
print("claimed:", claimed)
