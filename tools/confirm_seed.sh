#!/bin/bash
# tools/confirm_seed.sh <ID> <dir-with patch.diff demo.py meta.json> [name]
# Confirms a seeded change in a scratch worktree (demo passes without / fails with the
# change; the test-suite passes with it) and stores it under /verif/seeded/<name>/.
set -u
ID=$1; SRC=$2; NAME=${3:-$ID}
W=/tmp/confirm-$NAME
git -C /repo worktree remove --force $W 2>/dev/null
git -C /repo worktree add --detach $W ${SEED_BASE:-HEAD} >/dev/null 2>&1 || exit 2
cd $W
PYTHONPATH=$W PYTHONHASHSEED=0 /venv/bin/python $SRC/demo.py >/tmp/confirm-$NAME.base.log 2>&1; BASE=$?
git apply $SRC/patch.diff || { echo "patch does not apply"; git -C /repo worktree remove --force $W; exit 2; }
PYTHONPATH=$W PYTHONHASHSEED=0 /venv/bin/python $SRC/demo.py >/tmp/confirm-$NAME.mut.log 2>&1; MUT=$?
TESTS=$(/venv/bin/python -m pytest -q -p no:cacheprovider 2>&1 | grep -E "passed|failed" | tail -1)
cd /verif
git -C /repo worktree remove --force $W
mkdir -p /verif/seeded/$NAME
cp $SRC/patch.diff $SRC/demo.py /verif/seeded/$NAME/
/venv/bin/python - "$SRC/meta.json" "/verif/seeded/$NAME/meta.json" "$BASE" "$MUT" "$TESTS" <<'PY'
import json,sys
m=json.load(open(sys.argv[1]))
m["confirmed"]={"demo_exit_without_change":int(sys.argv[3]),"demo_exit_with_change":int(sys.argv[4]),"test_suite_with_change":sys.argv[5],
  "how":"tools/confirm_seed.sh: scratch worktree of /repo HEAD; demo.py run before and after `git apply patch.diff`; full pytest run with the change"}
json.dump(m,open(sys.argv[2],"w"),indent=1)
PY
echo "seed $NAME: demo base=$BASE mut=$MUT tests: $TESTS"
rm -f /tmp/confirm-$NAME.base.log /tmp/confirm-$NAME.mut.log
