#!/usr/bin/env python3
"""Fill '<commit>' placeholders of fixed entries in known_findings.d/*.json.
usage: fill_fix_commits.py <ID> <hash> [<hash> ...]   (hashes in the order of the file's fixed entries)"""
import json, sys
pid, hashes = sys.argv[1], sys.argv[2:]
p = f'/verif/known_findings.d/{pid}.json'
d = json.load(open(p))
todo = [e for e in d.get('fixed', []) if not e.get('commit') or e['commit'].startswith('<')]
assert len(todo) == len(hashes), (len(todo), len(hashes))
for e, h in zip(todo, hashes):
    e['commit'] = h
    e['line'] = e['line'].replace('<commit>', h)
json.dump(d, open(p, 'w'), indent=1)
print(json.dumps(d['fixed'], indent=1))
