#!/usr/bin/env python3
"""record_detection.py <seed-name> <check-id> <result> [note]: add a detection record to seeded/<name>/meta.json"""
import json, sys
name, cid, result = sys.argv[1:4]
note = sys.argv[4] if len(sys.argv) > 4 else ""
p = f'/verif/seeded/{name}/meta.json'
m = json.load(open(p))
m.setdefault('detection_runs', []).append({"check": f"./check {cid} --tier quick (patch applied to /repo with tools/try_seed.sh, then undone)", "result": result, "note": note})
json.dump(m, open(p, 'w'), indent=1)
