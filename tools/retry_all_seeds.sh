#!/bin/bash
# tools/retry_all_seeds.sh [lanes]: re-run every stored seeded change (seeded/*/patch.diff) against the
# current checks, in parallel lanes.  Each lane has its own copy of /verif (with its build output) and its
# own scratch worktree of /repo HEAD under /tmp, so /repo and /verif themselves are not touched; the lanes
# are removed at the end.  Result: one line per seed in /tmp/retry_all/summary.txt
#   <seed> <property> exit=<rc> violations=<n> without_input=<m>     (or "patch-does-not-apply")
LANES=${1:-4}
OUT=/tmp/retry_all; rm -rf $OUT; mkdir -p $OUT
ls -d /verif/seeded/*/ | xargs -n1 basename | sort > $OUT/all.txt
split -n r/$LANES -d $OUT/all.txt $OUT/lane.
lane() {
  k=$1; L=/tmp/retry_lane$k; rm -rf $L; mkdir -p $L
  cp -r /verif $L/verif; rm -rf $L/verif/.git
  git -C /repo worktree add --detach $L/repo HEAD >/dev/null 2>&1 || exit 2
  while read S; do
    P=/verif/seeded/$S/patch.diff
    ID=$(python3 -c "import json;print(json.load(open('/verif/seeded/$S/meta.json'))['property'])")
    if ! git -C $L/repo apply $P 2>/dev/null; then echo "$S $ID patch-does-not-apply" >> $OUT/res.$k; continue; fi
    (cd $L/verif && VERIF_REPO=$L/repo ./check $ID --tier quick > $OUT/$S.out 2>$OUT/$S.err); RC=$?
    V=$(grep -c '^VIOLATION' $OUT/$S.out); N=$(grep -c 'no-failing-input-found' $OUT/$S.out)
    echo "$S $ID exit=$RC violations=$V without_input=$N" >> $OUT/res.$k
    git -C $L/repo checkout -- . ; git -C $L/repo clean -fdq
  done < $OUT/lane.0$k
  git -C /repo worktree remove --force $L/repo; rm -rf $L
}
for k in $(seq 0 $((LANES-1))); do lane $k & done; wait
cat $OUT/res.* | sort > $OUT/summary.txt; cat $OUT/summary.txt
