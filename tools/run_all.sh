#!/bin/bash
# run every claimed quick check on /repo as it is; one summary line per check
cd /verif
T=${1:-quick}
for id in $(python3 -c "import json;print(' '.join(c['property_id'] for c in json.load(open('MANIFEST.json'))['checks']))"); do
  s=$(date +%s)
  ./check $id --tier $T > /tmp/run_all_$id.out 2> /tmp/run_all_$id.err; rc=$?
  e=$(date +%s)
  echo "$id rc=$rc wall=$((e-s))s viol=$(grep -c '^VIOLATION' /tmp/run_all_$id.out) known=$(grep -c '^KNOWN-FINDING' /tmp/run_all_$id.out) $(grep '^OK' /tmp/run_all_$id.out | cut -c1-120)"
done
