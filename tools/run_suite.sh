#!/bin/bash
# run the repository test-suite on /repo HEAD in a scratch worktree (so /repo's working tree stays free)
W=/tmp/suite-wt-$$
git -C /repo worktree add --detach $W HEAD >/dev/null 2>&1 || exit 2
(cd $W && /venv/bin/python -m pytest -q -p no:cacheprovider 2>&1 | grep -E "^FAILED|passed|failed" | tail -5)
git -C /repo worktree remove --force $W
