#!/bin/bash
# run every thorough check (used through `vp run --with-repo`: VERIF_REPO=$VP_RUN_REPO)
cd "$(dirname "$0")/.."
export VERIF_REPO=${VP_RUN_REPO:-${VERIF_REPO:-/repo}}
./setup.sh > /tmp/thorough_setup.log 2>&1
for id in $(python3 -c "import json;print(' '.join(c['property_id'] for c in json.load(open('MANIFEST.json'))['checks']))"); do
  s=$(date +%s)
  ./check $id --tier thorough > thorough_$id.out 2> thorough_$id.err; rc=$?
  e=$(date +%s)
  echo "$id rc=$rc wall=$((e-s))s viol=$(grep -c '^VIOLATION' thorough_$id.out) $(grep '^OK' thorough_$id.out | cut -c1-140)"
done
