#!/bin/bash
# tools/run_thorough_par.sh: every thorough check, five lanes in parallel.  Each lane works in its own copy of
# this directory (the checks regenerate Gen/*.v and run make, so two checks must not share a build directory);
# results are copied back as thorough_<ID>.out/.err and evidence/<ID>.json.  Used through
# `vp run --with-repo -- tools/run_thorough_par.sh` (VERIF_REPO=$VP_RUN_REPO) or directly against /repo.
cd "$(dirname "$0")/.."
HERE=$(pwd)
export VERIF_REPO=${VP_RUN_REPO:-${VERIF_REPO:-/repo}}
./setup.sh > thorough_setup.log 2>&1
LANES=("C11 C12 C18 C13" "C01 C06 C16 C14" "C02 C17 C20 C15" "C09 C10 C07 C19" "C08 C04 C03 C05")
SCR=$(mktemp -d /tmp/thorough_par.XXXXXX)
lane() {
  k=$1; shift
  L=$SCR/lane$k; mkdir -p $L; cp -r $HERE $L/verif; rm -rf $L/verif/.git
  for id in "$@"; do
    s=$(date +%s)
    (cd $L/verif && ./check $id --tier thorough > $HERE/thorough_$id.out 2> $HERE/thorough_$id.err); rc=$?
    e=$(date +%s)
    cp $L/verif/evidence/$id.json $HERE/evidence/$id.json 2>/dev/null
    mkdir -p $HERE/replays; cp $L/verif/replays/$id-*.json $HERE/replays/ 2>/dev/null
    echo "$id rc=$rc wall=$((e-s))s viol=$(grep -c '^VIOLATION' $HERE/thorough_$id.out) $(grep '^OK' $HERE/thorough_$id.out | cut -c1-140)"
  done
  rm -rf $L
}
k=0
for ids in "${LANES[@]}"; do lane $k $ids & k=$((k+1)); done
wait
rm -rf $SCR
