#!/bin/bash
# tools/try_seed.sh <ID> <patch.diff> [tier]: apply a seeded change to /repo, run the check, undo.
ID=$1; P=$2; T=${3:-quick}
cd /repo && git diff --quiet || { echo "/repo dirty"; exit 2; }
git apply "$P" || { echo "patch does not apply"; exit 2; }
cp /verif/evidence/$ID.json /tmp/try_seed_$ID.evidence.bak 2>/dev/null
cd /verif && ./check $ID --tier $T > /tmp/try_seed_$ID.out 2>/tmp/try_seed_$ID.err; RC=$?
cp /tmp/try_seed_$ID.evidence.bak /verif/evidence/$ID.json 2>/dev/null   # a seeded run is not evidence
cd /repo && git checkout -- . && cd /verif
echo "exit=$RC"; grep -c VIOLATION /tmp/try_seed_$ID.out; grep VIOLATION /tmp/try_seed_$ID.out | head -3; grep -v "^Closed" /tmp/try_seed_$ID.out | grep -v VIOLATION | tail -3
